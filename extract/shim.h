/* Pre-included into every extraction TU.  Keeps every xsimd function as its own
 * IR function (XSIMD_INLINE is always_inline in the library) so that contracts
 * attach to real function boundaries.  No file in /repo is modified. */
#ifndef XSIMD_VERIF_SHIM_H
#define XSIMD_VERIF_SHIM_H
#define XSIMD_INLINE_HPP
#define XSIMD_INLINE inline __attribute__((noinline))
#endif
