/* Runtime prelude of the C emitted by ll2c (trusted base: LLVM LangRef semantics in C for CBMC).
 * Arithmetic interpretation modes (DESIGN 3.2) are selected with -DLL_MODE_UF (shared uninterpreted
 * symbols for mul/div/fma/sqrt) and -DLL_MODE_UF_ADD (additionally fadd/fsub). */
#ifndef LL2C_RT_H
#define LL2C_RT_H

#ifdef __cplusplus
typedef bool u1;
#else
typedef _Bool u1;
#endif
typedef unsigned char u8;
typedef unsigned short u16;
typedef unsigned int u32;
typedef unsigned long long u64;
typedef signed char s8;
typedef signed short s16;
typedef signed int s32;
typedef signed long long s64;
typedef unsigned __int128 u128;
typedef __int128 s128;
typedef float f32;
typedef double f64;
#ifdef LL2C_NATIVE
#define LL2C_DEFINT(N) typedef unsigned _ExtInt(N) u##N; typedef signed _ExtInt(N) s##N;
#else
#define LL2C_DEFINT(N) typedef unsigned __CPROVER_bitvector[N] u##N; typedef signed __CPROVER_bitvector[N] s##N;
#endif

/* address of a pointer for alignment questions: CBMC places every object at an aligned base address, which would make every
 * "pointer is N-byte aligned" obligation trivially true; an uninterpreted per-object skew makes the residue of an object's base
 * arbitrary unless a contract (aligned load/store forms) or the declaration (alignas locals) constrains it. */
#ifdef LL2C_NATIVE
#define LL_ADDR(p) ((u64)(p))
#else
u64 __CPROVER_uninterpreted_objskew(u64);
#define LL_ADDR(p) ((u64)(p) + (__CPROVER_uninterpreted_objskew((u64)__CPROVER_POINTER_OBJECT(p)) & 63))
#endif

#define LL_DEFVEC(N, T, AL) typedef struct v##N##T { T e[N]; } __attribute__((aligned(AL))) v##N##T;
LL_DEFVEC(2, u8, 2) LL_DEFVEC(4, u8, 4) LL_DEFVEC(8, u8, 8) LL_DEFVEC(16, u8, 16) LL_DEFVEC(32, u8, 32) LL_DEFVEC(64, u8, 64)
LL_DEFVEC(1, u16, 2) LL_DEFVEC(2, u16, 4) LL_DEFVEC(4, u16, 8) LL_DEFVEC(8, u16, 16) LL_DEFVEC(16, u16, 32) LL_DEFVEC(32, u16, 64)
LL_DEFVEC(1, u32, 4) LL_DEFVEC(2, u32, 8) LL_DEFVEC(4, u32, 16) LL_DEFVEC(8, u32, 32) LL_DEFVEC(16, u32, 64)
LL_DEFVEC(1, u64, 8) LL_DEFVEC(2, u64, 16) LL_DEFVEC(4, u64, 32) LL_DEFVEC(8, u64, 64)
LL_DEFVEC(1, f32, 4) LL_DEFVEC(2, f32, 8) LL_DEFVEC(4, f32, 16) LL_DEFVEC(8, f32, 32) LL_DEFVEC(16, f32, 64)
LL_DEFVEC(1, f64, 8) LL_DEFVEC(2, f64, 16) LL_DEFVEC(4, f64, 32) LL_DEFVEC(8, f64, 64)

/* non-deterministic values (undef / poison) */
#ifdef LL2C_NATIVE
static inline u1 nondet_u1(void) { return 0; } static inline u8 nondet_u8(void) { return 0; } static inline u16 nondet_u16(void) { return 0; }
static inline u32 nondet_u32(void) { return 0; } static inline u64 nondet_u64(void) { return 0; } static inline u128 nondet_u128(void) { return 0; }
static inline f32 nondet_f32(void) { return 0; } static inline f64 nondet_f64(void) { return 0; } static inline void *nondet_ptr(void) { return 0; }
#define __CPROVER_assert(c, m) ((void)0)
#define __CPROVER_assume(c) ((void)0)
#define __CPROVER_r_ok(p, n) 1
#define __CPROVER_w_ok(p, n) 1
#else
u1 nondet_u1(void); u8 nondet_u8(void); u16 nondet_u16(void); u32 nondet_u32(void); u64 nondet_u64(void); u128 nondet_u128(void);
f32 nondet_f32(void); f64 nondet_f64(void); void *nondet_ptr(void);
#endif

/* bit reinterpretation */
#ifdef LL2C_NATIVE
static inline u32 F2U32(f32 f) { union { f32 f; u32 u; } x; x.f = f; return x.u; }
static inline u64 F2U64(f64 f) { union { f64 f; u64 u; } x; x.f = f; return x.u; }
static inline f32 U2F32(u32 u) { union { f32 f; u32 u; } x; x.u = u; return x.f; }
static inline f64 U2F64(u64 u) { union { f64 f; u64 u; } x; x.u = u; return x.f; }
#else
/* call-free (usable in loop invariants; no instrumented-callee / uninstrumented-caller mismatch under dfcc) */
union ll_pun32 { f32 f; u32 u; };
union ll_pun64 { f64 f; u64 u; };
#define F2U32(x) (((union ll_pun32){ .f = (x) }).u)
#define F2U64(x) (((union ll_pun64){ .f = (x) }).u)
#define U2F32(x) (((union ll_pun32){ .u = (x) }).f)
#define U2F64(x) (((union ll_pun64){ .u = (x) }).f)
#endif

/* shifts: amount >= width is poison (C++ UB).  Default model: what compiled x86 code can produce -- either the scalar
 * instruction's count masking or the SIMD result (0 / sign fill) if the loop was vectorised; both are explored.
 * -DLL_SHIFT_POISON_NONDET makes it a fully non-deterministic value instead. */
#ifdef LL_SHIFT_POISON_NONDET
#define LL_SHL(U, C, W, a, b) (((u64)(b)) < (W) ? (U)((C)(a) << (b)) : (U)nondet_u64())
#define LL_LSHR(U, C, W, a, b) (((u64)(b)) < (W) ? (U)((C)(a) >> (b)) : (U)nondet_u64())
#define LL_ASHR(U, S, W, a, b) (((u64)(b)) < (W) ? (U)((S)(a) >> (b)) : (U)nondet_u64())
#else
#define LL_SHL(U, C, W, a, b) (((u64)(b)) < (W) ? (U)((C)(a) << (b)) : (nondet_u1() ? (U)0 : LL_SHLX(U, C, W, a, b)))
#define LL_LSHR(U, C, W, a, b) (((u64)(b)) < (W) ? (U)((C)(a) >> (b)) : (nondet_u1() ? (U)0 : LL_LSHRX(U, C, W, a, b)))
#define LL_ASHR(U, S, W, a, b) (((u64)(b)) < (W) ? (U)((S)(a) >> (b)) : (nondet_u1() ? (U)((S)(a) >> ((W) - 1)) : LL_ASHRX(U, S, W, a, b)))
#endif
#define LL_SHLX(U, C, W, a, b) ((U)((C)(a) << ((b) & ((W) < 64 ? 31 : 63))))
#define LL_LSHRX(U, C, W, a, b) ((U)((C)(a) >> ((b) & ((W) < 64 ? 31 : 63))))
#define LL_ASHRX(U, S, W, a, b) ((U)((S)(a) >> ((b) & ((W) < 64 ? 31 : 63))))

#define LL_NOWRAP_ADD(nsw, nuw, U, S, a, b, e) (__CPROVER_assert(!(nsw) || !__CPROVER_overflow_plus((S)(a), (S)(b)), "no signed overflow (add nsw)"), (e))
#define LL_NOWRAP_SUB(nsw, nuw, U, S, a, b, e) (__CPROVER_assert(!(nsw) || !__CPROVER_overflow_minus((S)(a), (S)(b)), "no signed overflow (sub nsw)"), (e))
#define LL_NOWRAP_MUL(nsw, nuw, U, S, a, b, e) (__CPROVER_assert(!(nsw) || !__CPROVER_overflow_mult((S)(a), (S)(b)), "no signed overflow (mul nsw)"), (e))

/* float -> int: out of range is poison */
/* fptosi is defined whenever the truncated value is representable: f in (-2^(W-1) - 1, 2^(W-1)) */
#define LL_FPTOSI(U, S, W, f) ((((f) == (f)) && ((f) >= -0x1p##W * 0.5 || (f) > -0x1p##W * 0.5 - 1.0) && (f) < 0x1p##W * 0.5) ? (U)(S)(f) : (U)nondet_u64())
#define LL_FPTOUI(U, W, f) ((((f) == (f)) && (f) > -1.0 && (f) < 0x1p##W) ? (U)(f) : (U)nondet_u64())

/* always-interpreted forms (an operand is a compile-time constant: address arithmetic, scaling by 0.5, 2^k, ...) */
#define CMUL_u8(a, b) ((u8)((u32)(a) * (u32)(b)))
#define CMUL_u16(a, b) ((u16)((u32)(a) * (u32)(b)))
#define CMUL_u32(a, b) ((u32)((u32)(a) * (u32)(b)))
#define CMUL_u64(a, b) ((u64)((u64)(a) * (u64)(b)))
#define LL_CDIVOK_S(W, a, b) ((b) != 0 && !((u##W)(a) == ((u##W)1 << (W - 1)) && (u##W)(b) == (u##W)~(u##W)0))
#define LL_CUDIV(W, a, b) ((b) != 0 ? (u##W)((u##W)(a) / (u##W)(b)) : nondet_u##W())
#define LL_CUREM(W, a, b) ((b) != 0 ? (u##W)((u##W)(a) % (u##W)(b)) : nondet_u##W())
#define LL_CSDIV(W, a, b) (LL_CDIVOK_S(W, a, b) ? (u##W)((s##W)(a) / (s##W)(b)) : nondet_u##W())
#define LL_CSREM(W, a, b) (LL_CDIVOK_S(W, a, b) ? (u##W)((s##W)(a) % (s##W)(b)) : nondet_u##W())
#define CUDIV_u8(a, b) LL_CUDIV(8, a, b)
#define CUDIV_u16(a, b) LL_CUDIV(16, a, b)
#define CUDIV_u32(a, b) LL_CUDIV(32, a, b)
#define CUDIV_u64(a, b) LL_CUDIV(64, a, b)
#define CUREM_u8(a, b) LL_CUREM(8, a, b)
#define CUREM_u16(a, b) LL_CUREM(16, a, b)
#define CUREM_u32(a, b) LL_CUREM(32, a, b)
#define CUREM_u64(a, b) LL_CUREM(64, a, b)
#define CSDIV_u8(a, b) LL_CSDIV(8, a, b)
#define CSDIV_u16(a, b) LL_CSDIV(16, a, b)
#define CSDIV_u32(a, b) LL_CSDIV(32, a, b)
#define CSDIV_u64(a, b) LL_CSDIV(64, a, b)
#define CSREM_u8(a, b) LL_CSREM(8, a, b)
#define CSREM_u16(a, b) LL_CSREM(16, a, b)
#define CSREM_u32(a, b) LL_CSREM(32, a, b)
#define CSREM_u64(a, b) LL_CSREM(64, a, b)
#define CFMUL_f32(a, b) ((f32)((a) * (b)))
#define CFMUL_f64(a, b) ((f64)((a) * (b)))
#define CFDIV_f32(a, b) ((f32)((a) / (b)))
#define CFDIV_f64(a, b) ((f64)((a) / (b)))

/* ------------------------------------------------------------------------------------------------
 * multiplication / division / fma / sqrt: interpretation modes */
#ifdef LL_MODE_UF
u8 __CPROVER_uninterpreted_mul8(u8, u8);
u16 __CPROVER_uninterpreted_mul16(u16, u16);
u32 __CPROVER_uninterpreted_mul32(u32, u32);
u64 __CPROVER_uninterpreted_mul64(u64, u64);
/* Uninterpreted multiplier, normalised so that the facts every two's-complement multiplier satisfies hold by construction:
 * commutativity (arguments ordered) and (-a)*b == -(a*b) (mod 2^W) (arguments made non-negative, sign restored).
 * Sound: the hardware multiplier restricted to normalised arguments is one interpretation of the symbol. */
#define LL_UFMUL(W) static inline u##W MUL_u##W(u##W a, u##W b) { \
  u##W sa = (u##W)(a >> (W - 1)), sb = (u##W)(b >> (W - 1)); \
  u##W x = sa ? (u##W)(0 - a) : a, y = sb ? (u##W)(0 - b) : b; \
  u##W mn = (u##W)((u##W)1 << (W - 1)); \
  u##W r = (x == 0 || y == 0) ? (u##W)0 : x == 1 ? y : y == 1 ? x /* exact facts: 0*k = 0, 1*k = k */ \
         : x == mn ? ((y & 1) ? mn : (u##W)0) : y == mn ? ((x & 1) ? mn : (u##W)0) /* MIN * k is exactly MIN or 0 */ \
         : x <= y ? __CPROVER_uninterpreted_mul##W(x, y) : __CPROVER_uninterpreted_mul##W(y, x); \
  return (sa ^ sb) ? (u##W)(0 - r) : r; }
LL_UFMUL(8) LL_UFMUL(16) LL_UFMUL(32) LL_UFMUL(64)
#define LL_UFDIV(W) \
  u##W __CPROVER_uninterpreted_udiv##W(u##W, u##W); u##W __CPROVER_uninterpreted_sdiv##W(u##W, u##W); \
  u##W __CPROVER_uninterpreted_urem##W(u##W, u##W); u##W __CPROVER_uninterpreted_srem##W(u##W, u##W);
LL_UFDIV(8) LL_UFDIV(16) LL_UFDIV(32) LL_UFDIV(64)
#define LL_DIVOK_S(W, a, b) ((b) != 0 && !((u##W)(a) == ((u##W)1 << (W - 1)) && (u##W)(b) == (u##W)~(u##W)0))
#define UDIV_u8(a, b) ((b) != 0 ? __CPROVER_uninterpreted_udiv8((a), (b)) : nondet_u8())
#define UDIV_u16(a, b) ((b) != 0 ? __CPROVER_uninterpreted_udiv16((a), (b)) : nondet_u16())
#define UDIV_u32(a, b) ((b) != 0 ? __CPROVER_uninterpreted_udiv32((a), (b)) : nondet_u32())
#define UDIV_u64(a, b) ((b) != 0 ? __CPROVER_uninterpreted_udiv64((a), (b)) : nondet_u64())
#define UREM_u8(a, b) ((b) != 0 ? __CPROVER_uninterpreted_urem8((a), (b)) : nondet_u8())
#define UREM_u16(a, b) ((b) != 0 ? __CPROVER_uninterpreted_urem16((a), (b)) : nondet_u16())
#define UREM_u32(a, b) ((b) != 0 ? __CPROVER_uninterpreted_urem32((a), (b)) : nondet_u32())
#define UREM_u64(a, b) ((b) != 0 ? __CPROVER_uninterpreted_urem64((a), (b)) : nondet_u64())
/* exact fact used to relate symbols: for non-negative operands signed and unsigned division coincide */
#define LL_UFSDIV(W) \
  static inline u##W SDIV_u##W(u##W a, u##W b) { if (!LL_DIVOK_S(W, a, b)) return nondet_u##W(); \
    return (((a | b) >> (W - 1)) == 0) ? __CPROVER_uninterpreted_udiv##W(a, b) : __CPROVER_uninterpreted_sdiv##W(a, b); } \
  static inline u##W SREM_u##W(u##W a, u##W b) { if (!LL_DIVOK_S(W, a, b)) return nondet_u##W(); \
    return (((a | b) >> (W - 1)) == 0) ? __CPROVER_uninterpreted_urem##W(a, b) : __CPROVER_uninterpreted_srem##W(a, b); }
LL_UFSDIV(8) LL_UFSDIV(16) LL_UFSDIV(32) LL_UFSDIV(64)
/* uninterpreted floating-point symbols see NaNs canonicalised, so that they are insensitive to the payload */
#define LL_CANON32(f) ((f) != (f) ? (u32)0x7fc00000u : F2U32(f))
#define LL_CANON64(f) ((f) != (f) ? (u64)0x7ff8000000000000ull : F2U64(f))
u32 __CPROVER_uninterpreted_fmul32(u32, u32); u64 __CPROVER_uninterpreted_fmul64(u64, u64);
u32 __CPROVER_uninterpreted_fdiv32(u32, u32); u64 __CPROVER_uninterpreted_fdiv64(u64, u64);
u32 __CPROVER_uninterpreted_fma32(u32, u32, u32); u64 __CPROVER_uninterpreted_fma64(u64, u64, u64);
u32 __CPROVER_uninterpreted_fsqrt32(u32); u64 __CPROVER_uninterpreted_fsqrt64(u64);
static inline f32 FMUL_f32(f32 a, f32 b) { u32 x = LL_CANON32(a), y = LL_CANON32(b); return U2F32(x <= y ? __CPROVER_uninterpreted_fmul32(x, y) : __CPROVER_uninterpreted_fmul32(y, x)); }
static inline f64 FMUL_f64(f64 a, f64 b) { u64 x = LL_CANON64(a), y = LL_CANON64(b); return U2F64(x <= y ? __CPROVER_uninterpreted_fmul64(x, y) : __CPROVER_uninterpreted_fmul64(y, x)); }
static inline f32 FDIV_f32(f32 a, f32 b) { return U2F32(__CPROVER_uninterpreted_fdiv32(LL_CANON32(a), LL_CANON32(b))); }
static inline f64 FDIV_f64(f64 a, f64 b) { return U2F64(__CPROVER_uninterpreted_fdiv64(LL_CANON64(a), LL_CANON64(b))); }
static inline f32 LL_FMA_f32(f32 a, f32 b, f32 c) { u32 x = LL_CANON32(a), y = LL_CANON32(b), z = LL_CANON32(c); return U2F32(x <= y ? __CPROVER_uninterpreted_fma32(x, y, z) : __CPROVER_uninterpreted_fma32(y, x, z)); }
static inline f64 LL_FMA_f64(f64 a, f64 b, f64 c) { u64 x = LL_CANON64(a), y = LL_CANON64(b), z = LL_CANON64(c); return U2F64(x <= y ? __CPROVER_uninterpreted_fma64(x, y, z) : __CPROVER_uninterpreted_fma64(y, x, z)); }
static inline f32 LL_SQRT_f32(f32 a) { return U2F32(__CPROVER_uninterpreted_fsqrt32(LL_CANON32(a))); }
static inline f64 LL_SQRT_f64(f64 a) { return U2F64(__CPROVER_uninterpreted_fsqrt64(LL_CANON64(a))); }
#else
#define MUL_u8(a, b) ((u8)((u32)(a) * (u32)(b)))
#define MUL_u16(a, b) ((u16)((u32)(a) * (u32)(b)))
#define MUL_u32(a, b) ((u32)((u32)(a) * (u32)(b)))
#define MUL_u64(a, b) ((u64)((u64)(a) * (u64)(b)))
#define LL_DIVOK_S(W, a, b) ((b) != 0 && !((u##W)(a) == ((u##W)1 << (W - 1)) && (u##W)(b) == (u##W)~(u##W)0))
#define LL_UDIV(W, a, b) ((b) != 0 ? (u##W)((u##W)(a) / (u##W)(b)) : nondet_u##W())
#define LL_UREM(W, a, b) ((b) != 0 ? (u##W)((u##W)(a) % (u##W)(b)) : nondet_u##W())
#define LL_SDIV(W, a, b) (LL_DIVOK_S(W, a, b) ? (u##W)((s##W)(a) / (s##W)(b)) : nondet_u##W())
#define LL_SREM(W, a, b) (LL_DIVOK_S(W, a, b) ? (u##W)((s##W)(a) % (s##W)(b)) : nondet_u##W())
#define UDIV_u8(a, b) LL_UDIV(8, a, b)
#define UDIV_u16(a, b) LL_UDIV(16, a, b)
#define UDIV_u32(a, b) LL_UDIV(32, a, b)
#define UDIV_u64(a, b) LL_UDIV(64, a, b)
#define UREM_u8(a, b) LL_UREM(8, a, b)
#define UREM_u16(a, b) LL_UREM(16, a, b)
#define UREM_u32(a, b) LL_UREM(32, a, b)
#define UREM_u64(a, b) LL_UREM(64, a, b)
#define SDIV_u8(a, b) LL_SDIV(8, a, b)
#define SDIV_u16(a, b) LL_SDIV(16, a, b)
#define SDIV_u32(a, b) LL_SDIV(32, a, b)
#define SDIV_u64(a, b) LL_SDIV(64, a, b)
#define SREM_u8(a, b) LL_SREM(8, a, b)
#define SREM_u16(a, b) LL_SREM(16, a, b)
#define SREM_u32(a, b) LL_SREM(32, a, b)
#define SREM_u64(a, b) LL_SREM(64, a, b)
#define FMUL_f32(a, b) ((f32)((a) * (b)))
#define FMUL_f64(a, b) ((f64)((a) * (b)))
#define FDIV_f32(a, b) ((f32)((a) / (b)))
#define FDIV_f64(a, b) ((f64)((a) / (b)))
f32 fmaf(f32, f32, f32); f64 fma(f64, f64, f64); f32 sqrtf(f32); f64 sqrt(f64);
#define LL_FMA_f32(a, b, c) fmaf((a), (b), (c))
#define LL_FMA_f64(a, b, c) fma((a), (b), (c))
#define LL_SQRT_f32(a) sqrtf(a)
#define LL_SQRT_f64(a) sqrt(a)
#endif

#ifdef LL_MODE_UF_ADD
u32 __CPROVER_uninterpreted_fadd32(u32, u32); u64 __CPROVER_uninterpreted_fadd64(u64, u64);
u32 __CPROVER_uninterpreted_fsub32(u32, u32); u64 __CPROVER_uninterpreted_fsub64(u64, u64);
/* exact facts of IEEE addition (round to nearest): (+0) + y == y, except (+0) + (-0) == +0 */
static inline f32 FADD_f32(f32 a, f32 b) { u32 x = LL_CANON32(a), y = LL_CANON32(b);
  if (x == 0) return U2F32(y == 0x80000000u ? 0u : y);
  if (y == 0) return U2F32(x == 0x80000000u ? 0u : x);
  return U2F32(x <= y ? __CPROVER_uninterpreted_fadd32(x, y) : __CPROVER_uninterpreted_fadd32(y, x)); }
static inline f64 FADD_f64(f64 a, f64 b) { u64 x = LL_CANON64(a), y = LL_CANON64(b);
  if (x == 0) return U2F64(y == 0x8000000000000000ull ? 0ull : y);
  if (y == 0) return U2F64(x == 0x8000000000000000ull ? 0ull : x);
  return U2F64(x <= y ? __CPROVER_uninterpreted_fadd64(x, y) : __CPROVER_uninterpreted_fadd64(y, x)); }
static inline f32 FSUB_f32(f32 a, f32 b) { return U2F32(__CPROVER_uninterpreted_fsub32(LL_CANON32(a), LL_CANON32(b))); }
static inline f64 FSUB_f64(f64 a, f64 b) { return U2F64(__CPROVER_uninterpreted_fsub64(LL_CANON64(a), LL_CANON64(b))); }
#else
#define FADD_f32(a, b) ((f32)((a) + (b)))
#define FADD_f64(a, b) ((f64)((a) + (b)))
#define FSUB_f32(a, b) ((f32)((a) - (b)))
#define FSUB_f64(a, b) ((f64)((a) - (b)))
#endif
f32 fmodf(f32, f32); f64 fmod(f64, f64);
#define FREM_f32(a, b) fmodf((a), (b))
#define FREM_f64(a, b) fmod((a), (b))

/* ------------------------------------------------------------------------------------------------
 * generic llvm.* intrinsics, scalar forms */
#define LL_INTOPS(W) \
  static inline u##W ll_smin_u##W(u##W a, u##W b) { return (s##W)a < (s##W)b ? a : b; } \
  static inline u##W ll_smax_u##W(u##W a, u##W b) { return (s##W)a > (s##W)b ? a : b; } \
  static inline u##W ll_umin_u##W(u##W a, u##W b) { return a < b ? a : b; } \
  static inline u##W ll_umax_u##W(u##W a, u##W b) { return a > b ? a : b; } \
  static inline u##W ll_add_u##W(u##W a, u##W b) { return (u##W)(a + b); } \
  static inline u##W ll_mul_u##W(u##W a, u##W b) { return MUL_u##W(a, b); } \
  static inline u##W ll_and_u##W(u##W a, u##W b) { return a & b; } \
  static inline u##W ll_or_u##W(u##W a, u##W b) { return a | b; } \
  static inline u##W ll_xor_u##W(u##W a, u##W b) { return a ^ b; } \
  static inline u##W ll_abs_u##W(u##W a) { return (s##W)a < 0 ? (u##W)(0 - a) : a; } \
  static inline u##W ll_uadd_sat_u##W(u##W a, u##W b) { u##W s = (u##W)(a + b); return s < a ? (u##W)~(u##W)0 : s; } \
  static inline u##W ll_usub_sat_u##W(u##W a, u##W b) { return a < b ? (u##W)0 : (u##W)(a - b); } \
  static inline u##W ll_sadd_sat_u##W(u##W a, u##W b) { u##W s = (u##W)(a + b); u##W mn = (u##W)((u##W)1 << (W - 1)); \
    if (((a ^ s) & (b ^ s)) & mn) return (a & mn) ? mn : (u##W)(mn - 1); return s; } \
  static inline u##W ll_ssub_sat_u##W(u##W a, u##W b) { u##W s = (u##W)(a - b); u##W mn = (u##W)((u##W)1 << (W - 1)); \
    if (((a ^ b) & (a ^ s)) & mn) return (a & mn) ? mn : (u##W)(mn - 1); return s; } \
  static inline u##W ll_ctpop_u##W(u##W a) { u##W c = 0; for (int i = 0; i < W; ++i) c += (a >> i) & 1; return c; } \
  static inline u##W ll_fshl_u##W(u##W a, u##W b, u##W c) { unsigned s = c % W; return s ? (u##W)((a << s) | (b >> (W - s))) : a; } \
  static inline u##W ll_fshr_u##W(u##W a, u##W b, u##W c) { unsigned s = c % W; return s ? (u##W)((a << (W - s)) | (b >> s)) : b; }
LL_INTOPS(8) LL_INTOPS(16) LL_INTOPS(32) LL_INTOPS(64)

#define LL_FPOPS(T, SFX, BITS, U) \
  static inline T ll_fabs_##T(T a) { return U2F##BITS(F2U##BITS(a) & (U)~((U)1 << (BITS - 1))); } \
  static inline T ll_copysign_##T(T a, T b) { return U2F##BITS((F2U##BITS(a) & (U)~((U)1 << (BITS - 1))) | (F2U##BITS(b) & ((U)1 << (BITS - 1)))); } \
  static inline T ll_sqrt_##T(T a) { return LL_SQRT_##T(a); } \
  static inline T ll_fma_##T(T a, T b, T c) { return LL_FMA_##T(a, b, c); } \
  static inline T ll_fmuladd_##T(T a, T b, T c) { return nondet_u1() ? LL_FMA_##T(a, b, c) : FADD_##T(FMUL_##T(a, b), c); } \
  static inline T ll_fadd_##T(T a, T b) { return FADD_##T(a, b); } \
  static inline T ll_fmul_##T(T a, T b) { return FMUL_##T(a, b); } \
  static inline T ll_minnum_##T(T a, T b) { return a != a ? b : b != b ? a : (a < b ? a : b); } \
  static inline T ll_maxnum_##T(T a, T b) { return a != a ? b : b != b ? a : (a > b ? a : b); }
LL_FPOPS(f32, f, 32, u32) LL_FPOPS(f64, , 64, u64)

/* rounding to integral in a given direction: CBMC library models */
f32 floorf(f32); f32 ceilf(f32); f32 truncf(f32); f32 roundf(f32); f32 nearbyintf(f32); f32 rintf(f32);
f64 floor(f64); f64 ceil(f64); f64 trunc(f64); f64 round(f64); f64 nearbyint(f64); f64 rint(f64);
#define ll_floor_f32(a) floorf(a)
#define ll_ceil_f32(a) ceilf(a)
#define ll_trunc_f32(a) truncf(a)
#define ll_round_f32(a) roundf(a)
#define ll_rint_f32(a) nearbyintf(a)
#define ll_floor_f64(a) floor(a)
#define ll_ceil_f64(a) ceil(a)
#define ll_trunc_f64(a) trunc(a)
#define ll_round_f64(a) round(a)
#define ll_rint_f64(a) nearbyint(a)

/* contracts (not bodies) are the only users of some library functions; the harness calls this so that the CPROVER
 * library models are linked before the contract instrumentation runs */
static inline void ll_use_libm(void) {
  f32 a = 0; f64 b = 0;
  a = floorf(a); a = ceilf(a); a = truncf(a); a = roundf(a); a = nearbyintf(a);
  b = floor(b); b = ceil(b); b = trunc(b); b = round(b); b = nearbyint(b);
#ifndef LL_MODE_UF
  a = fmaf(a, a, a); a = sqrtf(a); b = fma(b, b, b); b = sqrt(b);
#endif
}
void *memcpy(void *, const void *, unsigned long);
void *memmove(void *, const void *, unsigned long);
void *memset(void *, int, unsigned long);
#define LL_MEMCPY(d, s, n) memcpy((d), (s), (n))
#define LL_MEMMOVE(d, s, n) memmove((d), (s), (n))
#define LL_MEMSET(d, c, n) memset((d), (c), (n))

#endif
