#!/usr/bin/env python3
"""Runs the property checks against every seeded defect in /verif/seeded (apply patch to /repo, run the targeted check, revert);
records the outcome in seeded/<id>/result.json.  usage: run_seeded.py [id ...]"""
import sys, os, json, subprocess, re
V = os.path.dirname(os.path.dirname(os.path.abspath(__file__)))
ARGS = {
 "C01_m1": ["C03", "--archs", "sse2,sse4_1", "--ops", "lt,gt", "--types", "i64"],
 "C01_m1b": ["C01", "--archs", "sse2", "--ops", "min,sadd", "--types", "i64"],
 "C01_m2": ["C01", "--archs", "sse2,avx2", "--ops", "avg,avgr", "--types", "u32,u64"],
 "C01_m3": ["C01", "--archs", "sse2", "--ops", "fnms", "--types", "i32"],
 "C03_m1": ["C03", "--archs", "avx512f", "--ops", "lt,ge", "--types", "i16"],
 "C03_m2": ["C03", "--archs", "avx,avx2", "--ops", "ge", "--types", "f32,f64"],
 "C03_m3": ["C03", "--archs", "sse2,avx512f", "--ops", "bool_andnot", "--types", "i32"],
 "C06_m1": ["C06", "--archs", "avx512f"],
 "C06_m2": ["C06", "--archs", "sse2,avx2"],
 "C06_m3": ["C06", "--tier", "thorough", "--archs", "emu128"],
 "C07_m1": ["C07", "--archs", "sse2,avx2", "--ops", "bitwise_rshift_s", "--types", "i64"],
 "C07_m2": ["C07", "--archs", "sse2,avx512f", "--ops", "bitwise_rshift_b", "--types", "i64,u64,u32"],
 "C07_m3": ["C07", "--archs", "sse2", "--ops", "rotr_s,rotl_s", "--types", "u32"],
 "C02_m1": ["C02", "--archs", "avx,avx2", "--ops", "abs", "--types", "f64"],
 "C02_m2": ["C02", "--archs", "sse2,avx512f", "--ops", "fnms", "--types", "f32,f64"],
 "C02_m3": ["C02", "--archs", "sse2,avx512f", "--ops", "isfinite"],
 "C05_m1": ["C05", "--archs", "avx512bw", "--ops", "slide_left_3,slide_left_7,slide_left_4", "--types", "u8,i32"],
 "C05_m2": ["C05", "--archs", "sse2,avx2", "--ops", "compress", "--types", "f32,i32"],
 "C05_m3": ["C05", "--archs", "avx,avx2", "--ops", "transpose", "--types", "i16,u16"],
 "C09_m1": ["C09", "--archs", "sse2,avx2", "--ops", "reduce_max", "--types", "i8,u16"],
 "C09_m2": ["C09", "--archs", "sse2,avx512f", "--ops", "reduce_min", "--types", "i32,u64"],
 "C09_m3": ["C09", "--archs", "avx512f", "--ops", "haddp"],
 "C15_m1": ["C15"], "C15_m2": ["C15"], "C15_m3": ["C15"],
 # second round
 "C04_m1": ["C04", "--archs", "avx512bw,avx512f", "--ops", "bool_load_unaligned,bool_load_aligned"],
 "C04_m2": ["C04", "--archs", "sse2,avx2", "--ops", "gather", "--types", "u8,u16,i32"],
 "C08_m1": ["C08", "--archs", "sse2", "--ops", "round"],
 "C08_m2": ["C08", "--archs", "sse4_1", "--ops", "nearbyint_as_int", "--types", "f64"],
 "C12_m1": ["C12"], "C12_m2": ["C03", "--archs", "sse2", "--ops", "ge", "--types", "f32,f64"],
 "C13_m1": ["C13"], "C13_m2": ["C01", "--archs", "avx2", "--ops", "mul", "--types", "i8,u8"],
 "C14_m1": ["C14"], "C14_m2": ["C14"],
 "C16_m1": ["C16", "--archs", "avx,avx2"], "C16_m2": ["C16"],
 "C17_m1": ["C17", "--ops", "avg,avgr", "--types", "u32,u64"], "C17_m2": ["C03", "--archs", "sse2", "--ops", "lt,gt", "--types", "i64"],
 "C18_m1": ["C18"], "C18_m2": ["C18"],
 "C19_m1": ["C19"], "C19_m2": ["C05", "--archs", "sse2,avx2", "--ops", "rotate_right_3", "--types", "f32,i32"],
 "C20_m1": ["C20"], "C20_m2": ["C20"],
 # third round
 "C05_m4": ["C05", "--archs", "avx,avx2", "--ops", "shuffle_zipstride,shuffle_ziplo,shuffle_mix,shuffle_sel,shuffle_lodup,shuffle_pairswap", "--types", "f64"],
 "C05_m5": ["C05", "--archs", "sse2,avx2", "--ops", "compress", "--types", "f64,i32"],
 "C09_m4": ["C09", "--archs", "ssse3,avx2", "--ops", "reduce_add", "--types", "i16,u16"],
 "C09_m5": ["C09", "--archs", "sse2,avx512f", "--ops", "reduce_min", "--types", "u32,i32,i64"],
 # fourth round
 "C18_m3": ["C18"], "C16_m3": ["C16", "--archs", "sse2", "--ops", "cmul"],
 "C17_m3": ["C17", "--ops", "avg,avgr", "--types", "i8,i16,i32"], "C17_m4": ["C17", "--ops", "nearbyint_as_int,is_even"],
 "C12_m3": ["C12"], "C12_m4": ["C12"],
 "C04_m3": ["C04", "--archs", "avx,avx2", "--ops", "load_unaligned,load_aligned", "--types", "i8,i32,f32"],
 "C02_m4": ["C02", "--archs", "sse2,avx512f", "--ops", "fnms"], "C02_m5": ["C02", "--archs", "avx512f,sse2", "--ops", "ldexp"],
 "C06_m4": ["C06", "--archs", "sse2,avx2", "--ops", "batch_cast_to_f32,load_as_from_i32", "--types", "u32,f32"],
 "C06_m5": ["C06", "--archs", "sse4_1", "--ops", "batch_cast_to_f64", "--types", "u64,i64"],
 "C03_m4": ["C03", "--archs", "sse2,sse4_1", "--ops", "bool_eq,bool_neq", "--types", "f64,f32"],
 "C04_m4": ["C03", "--archs", "sse2,avx512bw", "--ops", "bool_get", "--types", "i8,u16,i32"],
}
ids = sys.argv[1:] or sorted(d for d in os.listdir(os.path.join(V, "seeded")) if os.path.isdir(os.path.join(V, "seeded", d)))
for i in ids:
    d = os.path.join(V, "seeded", i)
    args = ARGS.get(i)
    if not args:
        print(i, "no check arguments registered"); continue
    # the patch is applied to a scratch worktree of /repo's HEAD (XSIMD_REPO points the checks at it), so that /repo itself is never
    # modified while other work goes on; evidence of these runs goes to build/seeded_evidence, not to evidence/
    W = os.environ.get("SEEDED_WORKTREE", "/tmp/sw_seeded")
    if not os.path.isdir(W):
        subprocess.run(["git", "-C", "/repo", "worktree", "add", "-q", "--detach", W, "HEAD"], check=True)
    subprocess.run(["git", "-C", W, "checkout", "-q", "--", "."])
    r = subprocess.run(["git", "-C", W, "apply", os.path.join(d, "patch.diff")])
    if r.returncode != 0:
        print(i, "patch does not apply"); continue
    env = dict(os.environ, XSIMD_REPO=W, VERIF_EVIDENCE_DIR=os.path.join(V, "build", "seeded_evidence"), VERIF_BUDGET="1500")
    p = subprocess.run([os.path.join(V, "bin", "verif"), "check"] + args, stdout=subprocess.PIPE, stderr=subprocess.STDOUT, universal_newlines=True, env=env)
    subprocess.run(["git", "-C", W, "checkout", "-q", "--", "."])
    viol = [l for l in p.stdout.splitlines() if l.startswith("VIOLATION")]
    summ = [l for l in p.stdout.splitlines() if re.match(r"^\[C\d+\] tier", l)]
    res = {"check": "bin/verif check " + " ".join(args), "exit_code": p.returncode, "violations": viol[:6], "summary": summ[-1] if summ else "",
           "detected": p.returncode == 1 and bool(viol), "replayed_natively": any("no-failing-input-found" not in v for v in viol)}
    json.dump(res, open(os.path.join(d, "result.json"), "w"), indent=1)
    print(i, "exit", p.returncode, "violations", len(viol), "native", res["replayed_natively"], flush=True)
