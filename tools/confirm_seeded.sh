#!/bin/sh
# usage: confirm_seeded.sh <worktree> <seeded dir>... : demo passes on the pristine worktree and fails with the patch applied
W=$1; shift
FL="-std=c++14 -O2 -w -mavx512f -mavx512bw -mavx512dq -mavx512cd -mavx512vl -mavx512vbmi -mavx512vbmi2 -mavx512vnni -mavx512ifma -mavx2 -mfma -mssse3 -msse4.2"
for d in "$@"; do
  n=$(basename $d)
  git -C $W checkout -q -- . 
  g++ $FL -I$W/include $d/demo.cpp -o /tmp/demo_$n.bin 2>/tmp/demo_$n.err || { echo "$n: demo does not compile on pristine"; continue; }
  /tmp/demo_$n.bin >/dev/null 2>&1; r0=$?
  git -C $W apply $d/patch.diff || { echo "$n: patch does not apply"; continue; }
  g++ $FL -I$W/include $d/demo.cpp -o /tmp/demo_$n.bin 2>/tmp/demo_$n.err || { echo "$n: does not compile with patch"; git -C $W checkout -q -- .; continue; }
  /tmp/demo_$n.bin >/tmp/demo_$n.out 2>&1; r1=$?
  git -C $W checkout -q -- .
  echo "$n: pristine rc=$r0 patched rc=$r1 $(head -c 100 /tmp/demo_$n.out | tr '\n' ' ')"
  rm -f /tmp/demo_$n.bin
done
