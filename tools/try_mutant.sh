#!/bin/sh
# usage: try_mutant.sh <patch.diff> <verif check args...> : applies the patch to /repo, runs the check, reverts
P=$1; shift
git -C /repo apply "$P" || { echo "patch does not apply"; exit 3; }
/verif/bin/verif check "$@"; rc=$?
git -C /repo checkout -- . 
echo "check exit code: $rc"
