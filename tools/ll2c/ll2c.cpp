// ll2c: lower one LLVM-IR function (clang -O0 output of the real xsimd headers) to C for CBMC.
// Part of the trusted base; translation rules are documented in /verif/DESIGN.md section 3.2.
//
// usage: ll2c <module.bc|.ll> --list out.json
//        ll2c <module.bc|.ll> --jobs jobs.json      (jobs: [{target, keep:[..], out, opts:{..}}])
#include "llvm/ADT/SmallVector.h"
#include "llvm/Analysis/LoopInfo.h"
#include "llvm/Analysis/ScalarEvolution.h"
#include "llvm/Demangle/Demangle.h"
#include "llvm/IR/CFG.h"
#include "llvm/IR/Constants.h"
#include "llvm/IR/DebugInfoMetadata.h"
#include "llvm/IR/Dominators.h"
#include "llvm/IR/InlineAsm.h"
#include "llvm/IR/InstIterator.h"
#include "llvm/IR/Instructions.h"
#include "llvm/IR/IntrinsicInst.h"
#include "llvm/IR/IntrinsicsX86.h"
#include "llvm/IR/LLVMContext.h"
#include "llvm/IR/Module.h"
#include "llvm/IR/PassManager.h"
#include "llvm/IR/Verifier.h"
#include "llvm/IRReader/IRReader.h"
#include "llvm/Passes/PassBuilder.h"
#include "llvm/Support/JSON.h"
#include "llvm/Support/MemoryBuffer.h"
#include "llvm/Support/SourceMgr.h"
#include "llvm/Support/raw_ostream.h"
#include "llvm/Transforms/Scalar/SROA.h"
#include "llvm/Transforms/Scalar/SimplifyCFG.h"
#include "llvm/Transforms/Utils/Cloning.h"
#include "llvm/Transforms/Utils/LoopSimplify.h"
#include "llvm/Transforms/Utils/Mem2Reg.h"

#include <fstream>
#include <map>
#include <set>
#include <sstream>
#include <stdexcept>
#include <string>
#include <vector>

using namespace llvm;

struct Fail : std::runtime_error {
  using std::runtime_error::runtime_error;
};
[[noreturn]] static void fail(const std::string &m) { throw Fail(m); }

static std::string str(const Value *V) {
  std::string s;
  raw_string_ostream os(s);
  V->print(os);
  return s;
}
static std::string str(const Type *T) {
  std::string s;
  raw_string_ostream os(s);
  T->print(os);
  return s;
}
static std::string sanitize(StringRef n) {
  std::string r;
  for (char c : n)
    r += (isalnum((unsigned char)c) || c == '_') ? c : '_';
  if (r.empty() || isdigit((unsigned char)r[0]))
    r = "_" + r;
  return r;
}
static std::string demangled(StringRef n) { return llvm::demangle(n.str()); }

// ------------------------------------------------------------------------------------------------
// options per job
struct Opts {
  bool sroa = true;          // run SROA/mem2reg after inlining
  bool inline_all = true;    // inline every defined callee that is not kept
  bool align_asserts = false; // assert alignment of loads/stores through parameter-derived pointers
  bool shift_x86 = false;    // scalar shifts by >= width: x86 masking instead of nondet
  bool nsw_asserts = false;  // assert absence of signed overflow on nsw/nuw
  bool loops_as_while = false; // emit natural loops as while(1){} with LOOP_CONTRACT_<fn>_<n> hook
  bool cut_after_loops = false; // blocks from which no loop can be reached any more return at once (termination proofs only)
  std::set<std::string> noinline; // never inline these (besides keep)
};

// ------------------------------------------------------------------------------------------------
class Emitter {
public:
  Module &M;
  Function *F; // the (cloned, pre-processed) target
  const Opts &O;
  std::set<std::string> keep;
  std::map<const Value *, std::string> names;
  std::set<std::string> usedNames;
  std::vector<std::string> typeDecls; // in dependency order
  std::map<Type *, std::string> typeNames;
  std::set<Type *> structDone, structFwd;
  std::set<std::string> needs;              // NEED_<model> macros
  std::map<const Function *, bool> declared; // callee prototypes to emit
  std::vector<const GlobalVariable *> globalsOrder;
  std::set<const GlobalVariable *> globalsSeen;
  std::ostringstream body;
  std::ostringstream locals;
  unsigned tmpCounter = 0;
  json::Object info;
  const DataLayout &DL;

  Emitter(Module &M, Function *F, const Opts &O, std::set<std::string> keep)
      : M(M), F(F), O(O), keep(std::move(keep)), DL(M.getDataLayout()) {}

  // ---------------------------------------------------------------- types
  static bool isStdVec(unsigned n, const std::string &elt) {
    unsigned bits = elt == "u8" ? 8 : elt == "u16" ? 16 : elt == "u32" || elt == "f32" ? 32 : elt == "u64" || elt == "f64" ? 64 : 0;
    if (!bits)
      return false;
    unsigned tot = bits * n;
    return n >= 1 && (tot == 16 || tot == 32 || tot == 64 || tot == 128 || tot == 256 || tot == 512) && n <= 64;
  }
  std::string intTy(unsigned bits) {
    switch (bits) {
    case 1: return "u1";
    case 8: return "u8";
    case 16: return "u16";
    case 32: return "u32";
    case 64: return "u64";
    case 128: return "u128";
    }
    std::string n = "u" + std::to_string(bits);
    static std::set<std::string> dummy;
    if (!oddInts.count(bits)) {
      oddInts.insert(bits);
      typeDecls.push_back("LL2C_DEFINT(" + std::to_string(bits) + ")");
    }
    return n;
  }
  std::set<unsigned> oddInts;
  std::string sintTy(unsigned bits) {
    std::string u = intTy(bits);
    return "s" + u.substr(1);
  }
  bool isMaskVec(Type *T) {
    auto *VT = dyn_cast<FixedVectorType>(T);
    return VT && VT->getElementType()->isIntegerTy(1);
  }
  std::string ty(Type *T) {
    auto it = typeNames.find(T);
    if (it != typeNames.end())
      return it->second;
    std::string r;
    if (T->isVoidTy())
      r = "void";
    else if (T->isIntegerTy())
      r = intTy(T->getIntegerBitWidth());
    else if (T->isFloatTy())
      r = "f32";
    else if (T->isDoubleTy())
      r = "f64";
    else if (auto *PT = dyn_cast<PointerType>(T)) {
      Type *E = PT->getPointerElementType();
      if (E->isFunctionTy())
        r = "void*";
      else if (auto *ST = dyn_cast<StructType>(E)) {
        r = structName(ST, /*needDef=*/false) + "*";
      } else
        r = ty(E) + "*";
    } else if (auto *VT = dyn_cast<FixedVectorType>(T)) {
      unsigned n = VT->getNumElements();
      Type *E = VT->getElementType();
      if (E->isIntegerTy(1)) {
        if (n > 64)
          fail("mask vector wider than 64: " + str(T));
        r = "u64";
      } else {
        if (E->isPointerTy())
          fail("vector of pointers: " + str(T));
        std::string e = ty(E);
        r = "v" + std::to_string(n) + e;
        if (!isStdVec(n, e)) {
          unsigned al = (unsigned)DL.getABITypeAlignment(T);
          typeDecls.push_back("typedef struct " + r + " { " + e + " e[" + std::to_string(n) + "]; } __attribute__((aligned(" + std::to_string(al) + "))) " + r + ";");
        }
      }
    } else if (auto *AT = dyn_cast<ArrayType>(T)) {
      std::string e = ty(AT->getElementType());
      std::string es = sanitize(e);
      uint64_t n = AT->getNumElements();
      r = "a" + std::to_string(n) + "_" + es;
      typeDecls.push_back("typedef struct " + r + " { " + e + " e[" + std::to_string(n ? n : 1) + "]; } " + r + ";");
      json::Object ao;
      ao["elt"] = e;
      ao["n"] = (int64_t)n;
      ao["eltsize"] = (int64_t)DL.getTypeAllocSize(AT->getElementType());
      arrayInfo[r] = std::move(ao);
    } else if (auto *ST = dyn_cast<StructType>(T)) {
      r = structName(ST, true);
    } else
      fail("unsupported type " + str(T));
    typeNames[T] = r;
    return r;
  }
  std::map<StructType *, std::string> structNames;
  std::string structName(StructType *ST, bool needDef) {
    std::string n;
    auto it = structNames.find(ST);
    if (it != structNames.end())
      n = it->second;
    else {
      if (ST->hasName())
        n = "struct S_" + sanitize(ST->getName());
      else
        n = "struct S_anon" + std::to_string(structNames.size());
      structNames[ST] = n;
    }
    if (!structFwd.count(ST)) {
      structFwd.insert(ST);
      typeDecls.push_back(n + ";");
    }
    if (needDef && !structDone.count(ST)) {
      structDone.insert(ST);
      if (ST->isOpaque())
        fail("opaque struct by value " + n);
      std::vector<std::string> fields;
      for (unsigned i = 0; i < ST->getNumElements(); ++i)
        fields.push_back(ty(ST->getElementType(i)));
      std::string d = n + " {";
      for (unsigned i = 0; i < fields.size(); ++i)
        d += " " + fields[i] + " f" + std::to_string(i) + ";";
      if (fields.empty())
        d += " u8 empty_;";
      d += " }";
      if (ST->isPacked())
        d += " __attribute__((packed))";
      d += ";";
      typeDecls.push_back(d);
      json::Array fa;
      const StructLayout *SL = DL.getStructLayout(ST);
      for (unsigned i = 0; i < fields.size(); ++i) {
        json::Object fo;
        fo["type"] = fields[i];
        fo["offset"] = (int64_t)SL->getElementOffset(i);
        fa.push_back(std::move(fo));
      }
      json::Object so;
      so["fields"] = std::move(fa);
      so["size"] = (int64_t)SL->getSizeInBytes();
      structInfo[n] = std::move(so);
    }
    return n;
  }
  json::Object structInfo;
  json::Object arrayInfo;

  unsigned eltBits(Type *E) {
    if (E->isIntegerTy())
      return E->getIntegerBitWidth();
    if (E->isFloatTy())
      return 32;
    if (E->isDoubleTy())
      return 64;
    if (E->isPointerTy())
      return 64;
    fail("eltBits " + str(E));
  }

  // ---------------------------------------------------------------- names
  std::string fresh(const std::string &base) {
    std::string n = base;
    unsigned k = 0;
    while (usedNames.count(n))
      n = base + "_" + std::to_string(++k);
    usedNames.insert(n);
    return n;
  }
  std::string nameOf(const Value *V) {
    auto it = names.find(V);
    if (it != names.end())
      return it->second;
    std::string b = V->hasName() ? sanitize(V->getName()) : std::string("t");
    if (isa<Argument>(V))
      b = "a_" + b;
    else if (isa<AllocaInst>(V))
      b = "L_" + b;
    else
      b = "v_" + b;
    std::string n = fresh(b);
    names[V] = n;
    return n;
  }
  std::string tmp(const std::string &b = "tmp") { return fresh("x_" + b + std::to_string(tmpCounter++)); }

#include "ll2c_expr.inc"
#include "ll2c_inst.inc"
#include "ll2c_func.inc"
};

#include "ll2c_main.inc"
