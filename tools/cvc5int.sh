#!/bin/sh
# SMT back end for nonlinear bit-vector identities: cvc5 with bit-vectors solved as integers
exec cvc5 --solve-bv-as-int=sum "$@"
