#!/usr/bin/env python3
"""census of llvm.x86.* models needed and ll2c failures over a set of entries"""
import sys, os, json, collections
sys.path.insert(0, os.path.dirname(os.path.dirname(os.path.abspath(__file__))))
from vlib.common import *
from vlib import entries, pipeline
archs = sys.argv[1].split(",") if len(sys.argv) > 1 else X86_ARCHS
ops = sys.argv[2].split(",") if len(sys.argv) > 2 else list(entries.OPS)
cases = [(o, t, a) for o in ops for t in entries.OPS[o][2] for a in archs]
wd = os.path.join(BUILD, "census"); os.makedirs(wd, exist_ok=True)
bc, fnmap, ts = pipeline.compile_tu(wd, "census", entries.tu_text(cases))
fns = pipeline.discover(fnmap)
roots = [entries.entry_name(*c) for c in cases]
reach = pipeline.reachable(fnmap, roots)
targets = sorted(n for n in reach if n in fns)
print(len(cases), "entries", len(fnmap), "functions", len(targets), "targets", "%.1fs" % ts)
keep = sorted(fns)
jobs = [{"target": n, "out": os.path.join(wd, "c%05d.c" % i)} for i, n in enumerate(targets)]
res = pipeline.run_ll2c(bc, jobs, wd, "census", keep_all=keep)
models = collections.Counter(); errs = collections.Counter(); uncontracted = collections.Counter()
for n, r in zip(targets, res):
    if not r["ok"]:
        errs[r["error"][:150]] += 1; continue
    for m in r["models"]: models[m] += 1
    for c in r["callees"]:
        if c["name"] not in fns: uncontracted[c["demangled"][:150]] += 1
print("MODELS", len(models))
for m, c in sorted(models.items()): print("  ", m, c)
print("ERRORS")
for m, c in errs.most_common(): print("  ", c, m)
print("CALLEES WITHOUT CONTRACT")
for m, c in uncontracted.most_common(60): print("  ", c, m)
