/* Scalar, mathematics-level specifications written from the property statements (/verif/properties.jsonl),
 * never from the code.  Every function takes and returns the unsigned bit pattern of the element type
 * (u8/u16/u32/u64); the element type id (i8,u8,...,f32,f64) selects the interpretation.
 * Shared by the vector kernels (per lane), the scalar overloads (C17) and the emulated architecture. */
#ifndef XSIMD_SPEC_H
#define XSIMD_SPEC_H

/* wider exact type for each width */
typedef s16 wide_s8;   typedef s32 wide_s16;  typedef s64 wide_s32;  typedef s128 wide_s64;
typedef u16 wide_u8;   typedef u32 wide_u16;  typedef u64 wide_u32;  typedef u128 wide_u64;

/* conversions: the C cast, or -- in the contract-only lemmas of C13 (-DSPEC_UF) -- an uninterpreted symbol */
#ifdef SPEC_UF
#define SPECCONV(UFN, E, A) UFN(A)
#else
#define SPECCONV(UFN, E, A) (E)
#endif
#define SPEC_MIN_s(W) ((u##W)((u##W)1 << (W - 1)))
#define SPEC_MAX_s(W) ((u##W)(SPEC_MIN_s(W) - 1))
#define SPEC_MAX_u(W) ((u##W)~(u##W)0)

/* division of 8/16-bit lanes is the truncated division of the values promoted to 32 bits (there is no narrower divider:
 * C++ integer promotion, and no SIMD integer divide); with the MIN/-1 and zero divisors excluded the quotient fits */
#define SPEC_SDIV_8(a, b) ((u8)SDIV_u32((u32)(s32)(s8)(a), (u32)(s32)(s8)(b)))
#define SPEC_SREM_8(a, b) ((u8)SREM_u32((u32)(s32)(s8)(a), (u32)(s32)(s8)(b)))
#define SPEC_SDIV_16(a, b) ((u16)SDIV_u32((u32)(s32)(s16)(a), (u32)(s32)(s16)(b)))
#define SPEC_SREM_16(a, b) ((u16)SREM_u32((u32)(s32)(s16)(a), (u32)(s32)(s16)(b)))
#define SPEC_SDIV_32(a, b) SDIV_u32(a, b)
#define SPEC_SREM_32(a, b) SREM_u32(a, b)
#define SPEC_SDIV_64(a, b) SDIV_u64(a, b)
#define SPEC_SREM_64(a, b) SREM_u64(a, b)
#define SPEC_UDIV_8(a, b) ((u8)UDIV_u32((u32)(a), (u32)(b)))
#define SPEC_UREM_8(a, b) ((u8)UREM_u32((u32)(a), (u32)(b)))
#define SPEC_UDIV_16(a, b) ((u16)UDIV_u32((u32)(a), (u32)(b)))
#define SPEC_UREM_16(a, b) ((u16)UREM_u32((u32)(a), (u32)(b)))
#define SPEC_UDIV_32(a, b) UDIV_u32(a, b)
#define SPEC_UREM_32(a, b) UREM_u32(a, b)
#define SPEC_UDIV_64(a, b) UDIV_u64(a, b)
#define SPEC_UREM_64(a, b) UREM_u64(a, b)

/* ---- operations that do not depend on signedness (C01, C07) -------------------------------------- */
#define SPEC_COMMON(T, W) \
  static inline u##W spec_add_##T(u##W a, u##W b) { return (u##W)(a + b); } \
  static inline u##W spec_sub_##T(u##W a, u##W b) { return (u##W)(a - b); } \
  static inline u##W spec_mul_##T(u##W a, u##W b) { return MUL_u##W(a, b); } \
  static inline u##W spec_neg_##T(u##W a) { return (u##W)(0 - a); } \
  static inline u##W spec_incr_##T(u##W a) { return (u##W)(a + 1); } \
  static inline u##W spec_decr_##T(u##W a) { return (u##W)(a - 1); } \
  static inline u##W spec_fma_##T(u##W a, u##W b, u##W c) { return (u##W)(MUL_u##W(a, b) + c); } \
  static inline u##W spec_fms_##T(u##W a, u##W b, u##W c) { return (u##W)(MUL_u##W(a, b) - c); } \
  static inline u##W spec_fnma_##T(u##W a, u##W b, u##W c) { return (u##W)(c - MUL_u##W(a, b)); } \
  static inline u##W spec_fnms_##T(u##W a, u##W b, u##W c) { return (u##W)(0 - MUL_u##W(a, b) - c); } \
  static inline u##W spec_and_##T(u##W a, u##W b) { return a & b; } \
  static inline u##W spec_or_##T(u##W a, u##W b) { return a | b; } \
  static inline u##W spec_xor_##T(u##W a, u##W b) { return a ^ b; } \
  static inline u##W spec_not_##T(u##W a) { return (u##W)~a; } \
  static inline u##W spec_andnot_##T(u##W a, u##W b) { return a & (u##W)~b; } \
  static inline u##W spec_shl_##T(u##W a, u##W n) { return (u##W)(a << n); } \
  static inline u##W spec_rotl_##T(u##W a, u##W n) { return n == 0 ? a : (u##W)((a << n) | (a >> (W - n))); } \
  static inline u##W spec_rotr_##T(u##W a, u##W n) { return n == 0 ? a : (u##W)((a >> n) | (a << (W - n))); } \
  static inline _Bool spec_eq_##T(u##W a, u##W b) { return a == b; } \
  static inline _Bool spec_neq_##T(u##W a, u##W b) { return a != b; }

/* ---- signed element types --------------------------------------------------------------------------- */
#define SPEC_SIGNED(T, W) \
  SPEC_COMMON(T, W) \
  static inline u##W spec_abs_##T(u##W a) { return (s##W)a < 0 ? (u##W)(0 - a) : a; } \
  static inline u##W spec_min_##T(u##W a, u##W b) { return (s##W)a < (s##W)b ? a : b; } \
  static inline u##W spec_max_##T(u##W a, u##W b) { return (s##W)a > (s##W)b ? a : b; } \
  static inline u##W spec_sign_##T(u##W a) { return (s##W)a > 0 ? (u##W)1 : (a == 0 ? (u##W)0 : (u##W)~(u##W)0); } \
  static inline u##W spec_div_##T(u##W a, u##W b) { return SPEC_SDIV_##W(a, b); } \
  static inline u##W spec_mod_##T(u##W a, u##W b) { return SPEC_SREM_##W(a, b); } \
  static inline _Bool spec_divpre_##T(u##W a, u##W b) { return b != 0 && !(a == SPEC_MIN_s(W) && b == SPEC_MAX_u(W)); } \
  static inline u##W spec_sadd_##T(u##W a, u##W b) { wide_s##W s = (wide_s##W)(s##W)a + (wide_s##W)(s##W)b; \
    return s > (wide_s##W)(s##W)SPEC_MAX_s(W) ? SPEC_MAX_s(W) : s < (wide_s##W)(s##W)SPEC_MIN_s(W) ? SPEC_MIN_s(W) : (u##W)s; } \
  static inline u##W spec_ssub_##T(u##W a, u##W b) { wide_s##W s = (wide_s##W)(s##W)a - (wide_s##W)(s##W)b; \
    return s > (wide_s##W)(s##W)SPEC_MAX_s(W) ? SPEC_MAX_s(W) : s < (wide_s##W)(s##W)SPEC_MIN_s(W) ? SPEC_MIN_s(W) : (u##W)s; } \
  /* avg: (a+b)/2 rounded toward zero */ \
  static inline u##W spec_avg_##T(u##W a, u##W b) { wide_s##W s = (wide_s##W)(s##W)a + (wide_s##W)(s##W)b; \
    return (u##W)(s >= 0 ? (s >> 1) : -((-s) >> 1)); } \
  /* avgr: ceil((a+b)/2), specified when a+b >= 0 */ \
  static inline _Bool spec_avgrpre_##T(u##W a, u##W b) { return (wide_s##W)(s##W)a + (wide_s##W)(s##W)b >= 0; } \
  static inline u##W spec_avgr_##T(u##W a, u##W b) { wide_s##W s = (wide_s##W)(s##W)a + (wide_s##W)(s##W)b; return (u##W)((s + 1) >> 1); } \
  static inline u##W spec_shr_##T(u##W a, u##W n) { return (u##W)((s##W)a >> n); } \
  static inline _Bool spec_lt_##T(u##W a, u##W b) { return (s##W)a < (s##W)b; } \
  static inline _Bool spec_le_##T(u##W a, u##W b) { return (s##W)a <= (s##W)b; } \
  static inline _Bool spec_gt_##T(u##W a, u##W b) { return (s##W)a > (s##W)b; } \
  static inline _Bool spec_ge_##T(u##W a, u##W b) { return (s##W)a >= (s##W)b; }

/* ---- unsigned element types ------------------------------------------------------------------------- */
#define SPEC_UNSIGNED(T, W) \
  SPEC_COMMON(T, W) \
  static inline u##W spec_abs_##T(u##W a) { return a; } \
  static inline u##W spec_min_##T(u##W a, u##W b) { return a < b ? a : b; } \
  static inline u##W spec_max_##T(u##W a, u##W b) { return a > b ? a : b; } \
  static inline u##W spec_sign_##T(u##W a) { return a != 0 ? (u##W)1 : (u##W)0; } \
  static inline u##W spec_div_##T(u##W a, u##W b) { return SPEC_UDIV_##W(a, b); } \
  static inline u##W spec_mod_##T(u##W a, u##W b) { return SPEC_UREM_##W(a, b); } \
  static inline _Bool spec_divpre_##T(u##W a, u##W b) { return b != 0; } \
  static inline u##W spec_sadd_##T(u##W a, u##W b) { wide_u##W s = (wide_u##W)a + (wide_u##W)b; return s > (wide_u##W)SPEC_MAX_u(W) ? SPEC_MAX_u(W) : (u##W)s; } \
  static inline u##W spec_ssub_##T(u##W a, u##W b) { return a < b ? (u##W)0 : (u##W)(a - b); } \
  static inline u##W spec_avg_##T(u##W a, u##W b) { return (u##W)(((wide_u##W)a + (wide_u##W)b) >> 1); } \
  static inline _Bool spec_avgrpre_##T(u##W a, u##W b) { return 1; } \
  static inline u##W spec_avgr_##T(u##W a, u##W b) { return (u##W)(((wide_u##W)a + (wide_u##W)b + 1) >> 1); } \
  static inline u##W spec_shr_##T(u##W a, u##W n) { return (u##W)(a >> n); } \
  static inline _Bool spec_lt_##T(u##W a, u##W b) { return a < b; } \
  static inline _Bool spec_le_##T(u##W a, u##W b) { return a <= b; } \
  static inline _Bool spec_gt_##T(u##W a, u##W b) { return a > b; } \
  static inline _Bool spec_ge_##T(u##W a, u##W b) { return a >= b; }

SPEC_SIGNED(i8, 8) SPEC_SIGNED(i16, 16) SPEC_SIGNED(i32, 32) SPEC_SIGNED(i64, 64)
SPEC_UNSIGNED(u8, 8) SPEC_UNSIGNED(u16, 16) SPEC_UNSIGNED(u32, 32) SPEC_UNSIGNED(u64, 64)

/* ---- floating point (C02, C03): patterns in, patterns out -------------------------------------------- */
#define SPEC_FLOAT(T, W) \
  static inline _Bool spec_isnan_##T(u##W a) { T x = U2F##W(a); return x != x; } \
  /* equality up to NaN payload: both NaN, or identical bit patterns */ \
  static inline _Bool spec_same_##T(u##W a, u##W b) { return a == b || (spec_isnan_##T(a) && spec_isnan_##T(b)); } \
  static inline u##W spec_add_##T(u##W a, u##W b) { return F2U##W(FADD_##T(U2F##W(a), U2F##W(b))); } \
  static inline u##W spec_sub_##T(u##W a, u##W b) { return F2U##W(FSUB_##T(U2F##W(a), U2F##W(b))); } \
  static inline u##W spec_mul_##T(u##W a, u##W b) { return F2U##W(FMUL_##T(U2F##W(a), U2F##W(b))); } \
  static inline u##W spec_div_##T(u##W a, u##W b) { return F2U##W(FDIV_##T(U2F##W(a), U2F##W(b))); } \
  static inline u##W spec_sqrt_##T(u##W a) { return F2U##W(LL_SQRT_##T(U2F##W(a))); } \
  static inline u##W spec_neg_##T(u##W a) { return a ^ ((u##W)1 << (W - 1)); } \
  static inline u##W spec_abs_##T(u##W a) { return a & (u##W)~((u##W)1 << (W - 1)); } \
  static inline u##W spec_copysign_##T(u##W a, u##W b) { return (a & (u##W)~((u##W)1 << (W - 1))) | (b & ((u##W)1 << (W - 1))); } \
  static inline u##W spec_bitofsign_##T(u##W a) { return a & ((u##W)1 << (W - 1)); } \
  static inline u##W spec_and_##T(u##W a, u##W b) { return a & b; } \
  static inline u##W spec_or_##T(u##W a, u##W b) { return a | b; } \
  static inline u##W spec_xor_##T(u##W a, u##W b) { return a ^ b; } \
  static inline u##W spec_not_##T(u##W a) { return (u##W)~a; } \
  static inline u##W spec_andnot_##T(u##W a, u##W b) { return a & (u##W)~b; } \
  static inline u##W spec_fma_fused_##T(u##W a, u##W b, u##W c) { return F2U##W(LL_FMA_##T(U2F##W(a), U2F##W(b), U2F##W(c))); } \
  static inline u##W spec_fma_unfused_##T(u##W a, u##W b, u##W c) { return F2U##W(FADD_##T(FMUL_##T(U2F##W(a), U2F##W(b)), U2F##W(c))); } \
  static inline _Bool spec_eq_##T(u##W a, u##W b) { return U2F##W(a) == U2F##W(b); } \
  static inline _Bool spec_neq_##T(u##W a, u##W b) { return U2F##W(a) != U2F##W(b); } \
  static inline _Bool spec_lt_##T(u##W a, u##W b) { return U2F##W(a) < U2F##W(b); } \
  static inline _Bool spec_le_##T(u##W a, u##W b) { return U2F##W(a) <= U2F##W(b); } \
  static inline _Bool spec_gt_##T(u##W a, u##W b) { return U2F##W(a) > U2F##W(b); } \
  static inline _Bool spec_ge_##T(u##W a, u##W b) { return U2F##W(a) >= U2F##W(b); } \
  static inline _Bool spec_isinf_##T(u##W a) { return (a & (u##W)~((u##W)1 << (W - 1))) == SPEC_INF_##T; } \
  static inline _Bool spec_isfinite_##T(u##W a) { return (a & SPEC_INF_##T) != SPEC_INF_##T; }
#define SPEC_INF_f32 ((u32)0x7f800000u)
#define SPEC_INF_f64 ((u64)0x7ff0000000000000ull)
SPEC_FLOAT(f32, 32) SPEC_FLOAT(f64, 64)

/* ---- C02 predicates / sign functions; C08 rounding ---------------------------------------------------- */
#define SPEC_FLOAT2(T, W, SFX) \
  static inline _Bool spec_iszero_##T(u##W a) { return (a & (u##W)~((u##W)1 << (W - 1))) == 0; } \
  /* same number: identical, both NaN, or both zero (sign of a zero result unspecified) */ \
  static inline _Bool spec_samenum_##T(u##W a, u##W b) { return spec_same_##T(a, b) || (spec_iszero_##T(a) && spec_iszero_##T(b)); } \
  static inline u##W spec_ceil_##T(u##W a) { return F2U##W(ceil##SFX(U2F##W(a))); } \
  static inline u##W spec_floor_##T(u##W a) { return F2U##W(floor##SFX(U2F##W(a))); } \
  static inline u##W spec_trunc_##T(u##W a) { return F2U##W(trunc##SFX(U2F##W(a))); } \
  static inline u##W spec_round_##T(u##W a) { return F2U##W(round##SFX(U2F##W(a))); } \
  static inline u##W spec_nearbyint_##T(u##W a) { return F2U##W(nearbyint##SFX(U2F##W(a))); } \
  static inline _Bool spec_is_flint_##T(u##W a) { T x = U2F##W(a); return spec_isfinite_##T(a) && trunc##SFX(x) == x; } \
  static inline _Bool spec_is_even_##T(u##W a) { T x = U2F##W(a); T h = x * (T)0.5; return spec_isfinite_##T(a) && trunc##SFX(x) == x && trunc##SFX(h) == h; } \
  static inline _Bool spec_is_odd_##T(u##W a) { return spec_is_flint_##T(a) && !spec_is_even_##T(a); } \
  static inline _Bool spec_signok_##T(u##W r, u##W a) { T x = U2F##W(a), y = U2F##W(r); \
    return x != x ? y != y : (x > 0 ? y == (T)1 : x < 0 ? y == (T)-1 : y == (T)0); } \
  static inline _Bool spec_signnzok_##T(u##W r, u##W a) { T y = U2F##W(r); return (a >> (W - 1)) ? y == (T)-1 : y == (T)1; } \
  static inline _Bool spec_minok_##T(u##W r, u##W a, u##W b) { T x = U2F##W(a), y = U2F##W(b), z = U2F##W(r); return (r == a || r == b) && z <= x && z <= y; } \
  static inline _Bool spec_maxok_##T(u##W r, u##W a, u##W b) { T x = U2F##W(a), y = U2F##W(b), z = U2F##W(r); return (r == a || r == b) && z >= x && z >= y; }
SPEC_FLOAT2(f32, 32, f) SPEC_FLOAT2(f64, 64, )

/* nextafter(from, to) on bit patterns (C library semantics): NaN if either is NaN; `to` if they compare equal; from zero the smallest
 * denormal with the sign of the direction; otherwise one step of the bit pattern, up in magnitude iff the direction points away from zero */
#define SPEC_NEXTAFTER(T, W) \
  static inline _Bool spec_nextafterok_##T(u##W r, u##W a, u##W b) { T x = U2F##W(a), y = U2F##W(b); \
    if (x != x || y != y) return spec_isnan_##T(r); \
    if (x == y) return spec_samenum_##T(r, b); \
    if (x == (T)0) return r == (y > x ? (u##W)1 : (((u##W)1 << (W - 1)) | (u##W)1)); \
    return r == (((y > x) == (x > (T)0)) ? (u##W)(a + 1) : (u##W)(a - 1)); }
SPEC_NEXTAFTER(f32, 32) SPEC_NEXTAFTER(f64, 64)

#endif
