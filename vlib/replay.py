"""Replay of CBMC counterexamples against the real code: a C++ driver includes the real xsimd headers (g++, the
compiler of the test build), rebuilds the arguments byte-for-byte, calls the same instantiation and hands the bytes of
arguments and result to a C checker that evaluates the contract's pre/postcondition natively (same spec.h)."""
import os, json, re, subprocess, shutil
from .common import *
from . import gen, table
from .sig import leaves

HOST_MFLAGS = [f for f in MFLAGS if f not in ("-mfma4", "-mavx512er", "-mavx512pf")]
REPLAYS = os.path.join(VERIF, "replays")


def inputs_from_trace(trace, obs):
    """-> {param index: {offset: (nbytes, int value)}}"""
    last = {}
    for st in trace or []:
        if st.get("stepType") == "assignment":
            lhs = str(st.get("lhs", ""))
            m = re.search(r"(OBS_\d+_\d+)$", lhs)
            if m and "value" in st and "binary" in st["value"]:
                last[m.group(1)] = int(st["value"]["binary"], 2)
    out = {}
    for (name, k, kind, off, nb, lk) in obs:
        out.setdefault(k, {})[off] = (nb, last.get(name, 0))
    return out, (len(last) > 0)


def _cpp_call(fn, argnames):
    """C++ expression that calls exactly the instantiation under contract; argnames per demangled non-empty parameter
    (this first for members)."""
    s = fn.sig
    if fn.level in ("kernel", "api"):
        targs = "<" + ", ".join(s.targs) + ">" if s.targs else ""
        if any(p.core.startswith("xsimd::batch_bool_constant<") for p in fn.ptypes):
            targs = ""      # a value pack followed by a defaulted parameter cannot be spelled: every argument is deducible from the call
        args = []
        it = iter(argnames)
        for p in fn.ptypes:
            if p.kind == "empty":
                args.append(p.core + "{}")
            elif p.kind == "tag":
                args.append(p.core + "{}")
            else:
                args.append(next(it))
        return "%s%s(%s)" % (s.qual, targs, ", ".join(args))
    sym = s.base[8:] if s.base.startswith("operator") else s.base
    if fn.level == "operator":
        a = list(argnames)
        if len(a) == 1:
            return "(%s%s)" % (sym, a[0])
        return "(%s %s %s)" % (a[0], sym, a[1])
    if fn.level == "compound":
        return "(%s %s %s)" % (argnames[0], sym, argnames[1])
    if fn.level == "member":
        return "%s.operator%s(%s)" % (argnames[0], sym, ", ".join(argnames[1:]))
    if fn.level == "method":
        targs = "<" + ", ".join(s.targs) + ">" if s.targs else ""
        if getattr(fn, "static", False):
            return "%s::%s%s(%s)" % (fn.cls_type.core, s.base, targs, ", ".join(argnames))
        return "%s.%s%s(%s)" % (argnames[0], "template " + s.base if targs else s.base, targs, ", ".join(argnames[1:]))
    raise Infra("replay: unknown level " + fn.level)


def _type_decls(cfile):
    """the type declarations ll2c emitted for the target (between the runtime include and the model section)"""
    out = []
    on = False
    with open(cfile) as f:
        for line in f:
            if line.startswith('#include "ll2c_rt.h"'):
                on = True
                continue
            if line.startswith("#define NEED_") or line.startswith('#include "ll2c_models.h"'):
                break
            if on:
                out.append(line)
    return "".join(out)


def make_replay(prop, rec, failed, out_dir):
    """rec: target record from check.run_cases (with fn_obj, task, stem); failed: one failed-property dict with trace.
    Writes driver.cpp, checker.c, build.sh into out_dir; returns meta dict."""
    fn = rec["fn_obj"]
    task = rec["task"]
    job = task["job"]
    os.makedirs(out_dir, exist_ok=True)
    # native rendering of the contract
    ctx = gen.bind(fn, job["target"], job, native=True)
    ctx.variant = task.get("variant")
    fn.row.build(ctx)
    gen.harness_text(ctx, job["target"]["name"])   # computes ctx.obs
    inputs, has_input = inputs_from_trace(failed.get("trace"), ctx.obs)
    pre = " && ".join("(%s)" % r for r in ctx.requires) or "1"
    post = " && ".join("(%s)" % e for e in ctx.ensures if "__CPROVER_return_value ==" not in e or fn.level != "compound") or "1"
    # ---- checker.c
    C = ["#define LL2C_NATIVE 1", '#include "ll2c_rt.h"', _type_decls(task["cfile"]), '#include "spec.h"', "#include <string.h>"]
    C.append("int verif_check(const unsigned char *ret, unsigned char **pre_args, unsigned char **post_args, int *pre_ok) {")
    k = 0
    ret_decl_done = False
    for (kind, cname, ctype) in ctx.ir_order:
        if kind in ("sret", "this", "ptr", "tag", "mem"):
            C.append("  %s %s = (%s)post_args[%d]; %s OLD_%s = (%s)pre_args[%d];" % (ctype, cname, ctype, k, ctype, cname, ctype, k))
        elif kind in ("scalar", "value"):
            C.append("  %s %s; memcpy(&%s, pre_args[%d], sizeof %s);" % (ctype, cname, cname, k, cname))
        k += 1
    if ctx.ret_ctype != "void" and fn.level != "compound":
        C.append("  %s RV; memcpy(&RV, ret, sizeof RV);" % ctx.ret_ctype)
    C.append("  *pre_ok = (%s) ? 1 : 0;" % pre.replace("__CPROVER_return_value", "RV"))
    C.append("  return (%s) ? 1 : 0;" % post.replace("__CPROVER_return_value", "RV"))
    C.append("}")
    with open(os.path.join(out_dir, "checker.c"), "w") as f:
        f.write("\n".join(C) + "\n")
    # ---- driver.cpp
    D = (["#define XSIMD_WITH_EMULATED 1"] if (fn.aid or "").startswith("emu") else []) + ["#include <xsimd/xsimd.hpp>", "#include <cstdio>", "#include <cstring>", "#include <cstdint>",
         'extern "C" int verif_check(const unsigned char *ret, unsigned char **pre_args, unsigned char **post_args, int *pre_ok);',
         "int main() {"]
    k = 0
    argnames = []
    dem_nonempty = [p for p in fn.ptypes if p.kind != "empty"]
    dem_iter = iter(dem_nonempty)
    nparams = len(ctx.ir_order)
    D.append("  unsigned char *pre_args[%d] = {0}; unsigned char *post_args[%d] = {0};" % (nparams + 1, nparams + 1))
    # floating-point functions: when the verifier's counterexample (attempt 0) does not fail on the real code -- typically a counterexample
    # of an abstraction -- the driver goes on through a lattice of special operand values (zeros, small integers and halves, infinities,
    # a subnormal, the largest finite value), the same value of an operand in lane 0 and shifted values in the other lanes; the first input
    # for which the real code violates the contract natively is reported (with that input).  Found natively, never by assumption.
    lattice = ctx.isfloat and fn.row.ret != "V" and fn.level != "compound"
    fills = []
    loop_at = len(D)
    result_var = None
    for (kind, cname, ctype) in ctx.ir_order:
        if kind == "sret":
            k += 1
            continue
        if kind == "this":
            cpptype = fn.cls_type.core
        else:
            pt = next(dem_iter)
            cpptype = pt.core
            if kind == "mem":
                cpptype = pt.text.replace("&", "").strip()
        if kind == "tag":
            k += 1
            continue
        size = job["target"]["params"][k].get("pointee_size") if kind in ("this", "ptr") else None
        vals = inputs.get(k, {})
        eb = getattr(ctx, "end_is_begin_plus", None)
        if kind == "mem" and eb and eb[0] == cname:
            # the one-past-the-end pointer of the array another parameter addresses
            bk = [kk for kk, (kd, cn, ct) in enumerate(ctx.ir_order) if cn == eb[1]][0]
            D.append("  %s a%d = a%d + %d;" % (cpptype, k, bk, eb[2]))
            D.append("  pre_args[%d] = (unsigned char*)a%d; post_args[%d] = (unsigned char*)a%d;" % (k, k, k, k))
            argnames.append("a%d" % k)
            k += 1
            continue
        if kind == "mem":
            nbytes = getattr(ctx, "mem_bytes", {}).get(cname, 64)
            by = bytearray(nbytes)
            for o, (nb, v) in vals.items():
                by[o:o + nb] = int(v).to_bytes(nb, "little")
            D.append("  alignas(64) static unsigned char in%d[%d] = {%s};" % (k, nbytes, ",".join(str(b) for b in by)))
            D.append("  alignas(64) static unsigned char buf%d[%d]; std::memcpy(buf%d, in%d, %d);" % (k, nbytes, k, k, nbytes))
            D.append("  %s a%d = (%s)buf%d;" % (cpptype, k, cpptype, k))
            D.append("  pre_args[%d] = in%d; post_args[%d] = buf%d;" % (k, k, k, k))
            argnames.append("a%d" % k)
            k += 1
            continue
        if kind in ("this", "ptr"):
            nbytes = size
        else:
            nbytes = max([o + nb for o, (nb, v) in vals.items()] or [8])
        by = bytearray(nbytes)
        for o, (nb, v) in vals.items():
            by[o:o + nb] = int(v).to_bytes(nb, "little")
        D.append("  alignas(64) static unsigned char in%d[%d] = {%s};" % (k, nbytes, ",".join(str(b) for b in by)))
        ptid = (fn.cls_type.tid if kind == "this" else getattr(pt, "tid", None)) or (ctx.tid if kind in ("scalar", "value") else None)
        if lattice and ptid in ("f32", "f64") and kind in ("this", "ptr", "scalar", "value") and nbytes % (TYPES[ptid][2] // 8) == 0:
            D.append("  if (t) ll_fill(in%d, %d, %d, t, %d);" % (k, nbytes, TYPES[ptid][2], len(fills)))
            fills.append(k)
        D.append("  alignas(64) static unsigned char post%d[%d];" % (k, nbytes))
        D.append("  %s a%d; std::memcpy((void*)&a%d, in%d, sizeof a%d);" % (cpptype, k, k, k, k))
        D.append("  pre_args[%d] = in%d; post_args[%d] = post%d;" % (k, k, k, k))
        argnames.append("a%d" % k)
        k += 1
    call = _cpp_call(fn, argnames)
    if fn.level == "compound":
        D.append("  %s;" % call)
        D.append("  unsigned char ret[1] = {0};")
    elif fn.row.ret == "V":
        D.append("  %s;" % call)
        D.append("  unsigned char ret[1] = {0};")
    else:
        D.append("  auto r = %s;" % call)
        D.append("  alignas(64) unsigned char ret[sizeof r]; std::memcpy(ret, (void*)&r, sizeof r);")
    # post-state of arguments
    kk = 0
    for (kind, cname, ctype) in ctx.ir_order:
        if kind in ("this", "ptr", "scalar", "value"):
            D.append("  std::memcpy(post%d, (void*)&a%d, sizeof a%d < sizeof post%d ? sizeof a%d : sizeof post%d);" % (kk, kk, kk, kk, kk, kk))
        kk += 1
    if ctx.sret:
        D.append("  static unsigned char sretbuf[sizeof r]; std::memcpy(sretbuf, (void*)&r, sizeof r); post_args[0] = sretbuf; pre_args[0] = sretbuf;")
    D.append("  int pre_ok = 0; int post_ok = verif_check(ret, pre_args, post_args, &pre_ok);")
    nt = 1 + min(16 ** len(fills), 4096) if fills else 1
    D.insert(loop_at, "  int first_pre = 0, first_post = 0; for (int t = 0; t < %d; ++t) {" % nt)
    D.append("  if (t == 0) { first_pre = pre_ok; first_post = post_ok; }")
    D.append("  if ((pre_ok && !post_ok) || %d == 1) {" % nt)
    D.append('  std::printf("{\\"pre\\": %d, \\"post\\": %d, \\"attempt\\": %d, \\"result_bytes\\": \\"", pre_ok, post_ok, t);')
    D.append('  for (unsigned i = 0; i < sizeof ret; ++i) std::printf("%02x", ret[i]);')
    D.append('  std::printf("\\", \\"inputs_hex\\": [");')
    for j, k_ in enumerate(fills):
        D.append('  std::printf("%s\\"");' % (", " if j else ""))
        D.append('  for (unsigned i = 0; i < sizeof in%d; ++i) std::printf("%%02x", in%d[i]);' % (k_, k_))
        D.append('  std::printf("\\"");')
    D.append('  std::printf("]}\\n");')
    D.append("  return (pre_ok && !post_ok) ? 1 : 0; }")
    D.append("  }")
    D.append('  std::printf("{\\"pre\\": %d, \\"post\\": %d, \\"attempts\\": %d, \\"result_bytes\\": \\"\\"}\\n", first_pre, first_post, ' + str(nt) + ');')
    D.append("  return 0;")
    D.append("}")
    fill_fn = [
        "#include <cmath>", "#include <cfloat>",
        "static void ll_fill(unsigned char *p, int nbytes, int w, int t, int ord) {",
        "  static const double V[16] = {0.0, -0.0, 1.0, -1.0, 1.5, 2.0, 3.0, -3.0, 0.5, -2.0, INFINITY, -INFINITY, 0.0, 0.0, 4.0, -1.5};",
        "  int idx = t - 1; for (int i = 0; i < ord; ++i) idx /= 16; idx %= 16;",
        "  int n = nbytes / (w / 8);",
        "  for (int j = 0; j < n; ++j) { int q = (idx + 5 * j) % 16;",
        "    if (w == 32) { float f = q == 12 ? 1e-40f : q == 13 ? FLT_MAX : (float)V[q]; std::memcpy(p + 4 * j, &f, 4); }",
        "    else { double d = q == 12 ? 1e-310 : q == 13 ? DBL_MAX : V[q]; std::memcpy(p + 8 * j, &d, 8); } } }"]
    main_at = D.index("int main() {")
    D[main_at:main_at] = fill_fn
    with open(os.path.join(out_dir, "driver.cpp"), "w") as f:
        f.write("\n".join(D) + "\n")
    with open(os.path.join(out_dir, "build.sh"), "w") as f:
        f.write("#!/bin/sh\n# rebuilds and runs the replay against the real headers in $XSIMD_REPO (default /repo)\nset -e\ncd \"$(dirname \"$0\")\"\n"
                "R=${XSIMD_REPO:-/repo}\n"
                "clang-14 -x c -O1 -w -c checker.c -I %s/rt -I %s/spec -o checker.o\n"
                "g++ -std=c++14 -O2 -w %s -I $R/include driver.cpp checker.o -o replay.bin\n./replay.bin\n"
                % (VERIF, VERIF, " ".join(HOST_MFLAGS) if fn.aid else "-ffp-contract=off"))   # scalar overloads: the baseline x86-64 build (no FMA contraction by the compiler)
    os.chmod(os.path.join(out_dir, "build.sh"), 0o755)
    return {"has_input": has_input, "inputs": {str(k): {str(o): hex(v) for o, (nb, v) in d.items()} for k, d in inputs.items()},
            "call": call, "pre": pre[:2000], "post": post[:4000]}


def run_replay(out_dir, timeout=300):
    try:
        p = subprocess.run(["sh", os.path.join(out_dir, "build.sh")], stdout=subprocess.PIPE, stderr=subprocess.STDOUT, universal_newlines=True,
                           timeout=timeout)
    except subprocess.TimeoutExpired:
        return None, "replay timed out"
    for f in ("checker.o", "replay.bin"):
        try:
            os.unlink(os.path.join(out_dir, f))
        except OSError:
            pass
    txt = p.stdout.strip()
    try:
        res = json.loads(txt.splitlines()[-1])
    except Exception:
        return None, "replay did not build/run: " + txt[-1500:]
    return res, txt
