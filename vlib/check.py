"""Generic driver for the contract checks over value kernels (C01-C09 family)."""
import os, json, time, shutil, sys, collections, re
from .common import *
from . import gen, table, pipeline, entries


class Report:
    def __init__(self, prop, tier, seed):
        self.prop, self.tier, self.seed = prop, tier, seed
        self.t0 = time.time()
        self.targets = []        # per verified function
        self.undecided = []
        self.infra = []
        self.violations = []     # (obligation, function, replay path, has_input)
        self.known = []
        self.assumptions = []
        self.notes = {}
        self.samples = []
        self.backends = collections.Counter()
        self.solver_seconds = 0.0
        self.replaced = set()
        self.bounded = []

    def evidence(self, extra_cov=None, trusted=None):
        # proof-level counts cover the functions proved in this run; everything else is listed separately
        obligations = sum(t["n_props"] for t in self.targets if t["status"] == "proved" and not t.get("same_vc_as"))
        discharged = obligations
        not_discharged = sum(t["n_props"] for t in self.targets if t["status"] != "proved")
        cov = {
            "obligations": obligations, "discharged": discharged,
            "checker_cmd": "clang++-14 -O0 -emit-llvm (real headers) | ll2c | goto-cc | goto-instrument --dfcc harness --enforce-contract <fn> "
                           "--replace-call-with-contract <callee>* | cbmc --bounds-check --pointer-check --unwind K --unwinding-assertions",
            "trusted_base": trusted or [],
            "obligations_in_functions_not_proved": not_discharged,
            "functions_under_contract": len(self.targets),
            "functions_proved": len([t for t in self.targets if t["status"] == "proved"]),
            "functions": [{"fn": t["dem"], "where": "%s:%s" % (t["file"], t["line"]), "status": t["status"], "obligations": t["n_props"],
                           "mode": t.get("mode"), "backend": t.get("backend"), "s": round(t.get("seconds", 0), 2),
                           "replaced_callees": t.get("replaced", []), "inlined": t.get("n_inlined", 0)} for t in self.targets],
            "callees_replaced_by_contract": sorted(self.replaced),
            "undecided": self.undecided, "bounded_stand_ins": self.bounded,
            "by_backend": dict(self.backends), "solver_seconds": round(self.solver_seconds, 1),
            "samples": self.samples[:6], "exhaustive": False,
        }
        ws = sum((t.get("ws_warn") or 0) for t in self.targets)
        if ws:
            cov["write_set_arg_warnings"] = ws
        cov.update(self.notes)
        if extra_cov:
            cov.update(extra_cov)
        return {"property_id": self.prop, "tier": self.tier, "seed": self.seed, "level": "proof", "coverage": cov,
                "assumptions": self.assumptions, "wall_s": round(time.time() - self.t0, 1), "violations": len(self.violations)}

    def write(self, **kw):
        os.makedirs(EVIDENCE, exist_ok=True)
        ev = self.evidence(**kw)
        with open(os.path.join(EVIDENCE, self.prop + ".json"), "w") as f:
            json.dump(ev, f, indent=1)
        return ev


TRUSTED = [
    "clang 14 front end: template instantiation, overload resolution and lowering of the real headers to LLVM IR (-O0)",
    "ll2c: LLVM IR -> C lowering (tools/ll2c), incl. LLVM's inliner and SROA pass run on the function under proof",
    "models/ll2c_models.h: C models of the llvm.x86.* intrinsics (Intel SDM semantics), differential-tested natively",
    "CBMC 6.11 bit-vector / IEEE-754 semantics, goto-instrument --dfcc contract instrumentation",
    "XSIMD_INLINE redefined to noinline (function boundaries only)",
    "specification helpers called only from contract clauses are left uninstrumented by dfcc; where they call an instrumented helper CBMC passes a "
    "non-deterministic write-set pointer (count in coverage.write_set_arg_warnings); helper results do not depend on it",
]


def attempts_for(mode, tier):
    """ordered (interpretation mode, back end, timeout s) attempts; the first definite answer wins"""
    long_t = 900 if tier == "thorough" else 240
    if mode == "concrete":
        return [("concrete", "sat", 40), ("concrete", "cadical", long_t)]
    if mode == "uf":
        return [("uf", "z3", 60), ("uf", "sat", 150), ("uf", "cadical", long_t), ("concrete", "sat", 150)]
    if mode == "mul":
        return [("uf", "z3", 60), ("uf", "sat", 150), ("concrete", "cvc5int", 120), ("concrete", "cadical", long_t)]
    if mode == "ufadd":
        return [("ufadd", "z3", 60), ("ufadd", "sat", 150), ("ufadd", "cadical", long_t), ("concrete", "sat", 150)]
    if mode == "ufaddc":     # large case-split conditions: cadical is the back end that finishes
        return [("ufadd", "cadical", long_t), ("ufadd", "z3", 60), ("concrete", "sat", 150)]
    raise Infra("unknown mode " + mode)


_TOK = re.compile(r"\b(_Z[A-Za-z0-9_]+|S_[A-Za-z0-9_]+|CONTRACT__Z[A-Za-z0-9_]+)\b")


def canonical_hash(t):
    """hash of the verification condition text with mangled function names and struct tags renamed in order of appearance"""
    wd = t["workdir"]
    txt = []
    for f in (t["cfile"], os.path.join(wd, t["contracts"]), os.path.join(wd, t["harness"])):
        with open(f) as fh:
            txt.append(fh.read())
    body = "\n".join(txt)
    body = re.sub(r"^/\* generated by ll2c.*$", "", body, flags=re.M)
    names = {}

    def ren(m):
        k = m.group(1)
        pre = ""
        if k.startswith("CONTRACT_"):
            pre, k = "CONTRACT_", k[9:]
        if k not in names:
            names[k] = "N%d" % len(names)
        return pre + names[k]
    body = _TOK.sub(ren, body)
    return sha(body + "|" + t["row_mode"] + "|" + str(t["unwind"]))


def build_target(fn, job, fns, wd, stem, ll2c_opts=None, variant=None):
    """writes contracts + harness for one ll2c job result; returns task template (without mode/backend)"""
    if not job.get("ok"):
        raise Infra("ll2c: %s: %s" % (fn.sig.dem, job.get("error")))
    tinfo = job
    txt = ['#include "spec.h"\n']
    ctx = gen.bind(fn, job["target"], tinfo)
    ctx.variant = variant
    fn.row.build(ctx)
    if getattr(ctx, "skip", None):
        return None
    txt.append(gen.contract_text(ctx, job["target"]["name"]))
    replace = []
    for c in job["callees"]:
        cf = fns.get(c["name"])
        if cf is None:
            raise Infra("callee without contract or body: %s (called from %s)" % (c["demangled"], fn.sig.dem))
        cctx = gen.bind(cf, c, tinfo)
        cf.row.build(cctx)
        # callee contracts: pointers must be readable at the call site
        txt.append(gen.contract_text(cctx, c["name"]))
        replace.append(c["name"])
    with open(os.path.join(wd, stem + "_contracts.h"), "w") as f:
        f.write("".join(txt))
    with open(os.path.join(wd, stem + "_harness.h"), "w") as f:
        f.write(gen.harness_text(ctx, job["target"]["name"]))
    unwind = 66  # model loops are bounded by the lane count (<= 64)
    for l in job.get("loops", []):
        if l["trip"] < 0:
            unwind = max(unwind, 70)
        else:
            unwind = max(unwind, l["trip"] + 2)
    return {"cfile": job["out"], "contracts": stem + "_contracts.h", "harness": stem + "_harness.h", "target": job["target"]["name"],
            "replace": replace, "unwind": unwind, "workdir": wd, "stem": stem, "row_mode": getattr(ctx, "mode", None) or fn.row.mode,
            "variant": variant, "n_variants": getattr(ctx, "variants", 1)}


def run_cases(prop, cases, tier, seed, props_filter=None, keep_workdir=False, ll2c_opts=None, workers=16, post_filter=None, optional_entries=False):
    """cases: list of (op, tid, aid).  Verifies every contract-carrying function reachable from the entries."""
    groups = {}
    x86 = [c for c in cases if not c[2].startswith("emu")]
    emu = [c for c in cases if c[2].startswith("emu")]
    if x86:
        groups["x86"] = (entries.tu_text(x86), [entries.entry_name(*c) for c in x86])
    if emu:
        groups["emu"] = (entries.tu_text(emu, emulated=True), [entries.entry_name(*c) for c in emu])
    if optional_entries:
        groups = {k: v + (True,) for k, v in groups.items()}
    return run_groups(prop, groups, tier, seed, props_filter, ll2c_opts, workers, post_filter)


def compile_dropping_rejected(wd, tag, tutext, roots):
    """Entries the library itself rejects (static_assert / no overload for that architecture-type combination) are dropped:
    the properties speak of 'every combination the library accepts'.  Returns (bc, fnmap, seconds, kept roots, dropped roots)."""
    lines = tutext.splitlines(True)
    dropped = []
    for attempt in range(24):
        try:
            bc, fnmap, tsec = pipeline.compile_tu(wd, tag, "".join(lines))
            return bc, fnmap, tsec, [r for r in roots if r not in dropped], dropped
        except Infra as e:
            out = getattr(e, "compiler_output", "")
            bad = set(re.findall(r"\b(e_[A-Za-z0-9_]+__[a-z0-9]+__[a-z0-9_]+)\b", out))
            bad = {b for b in bad if b in roots and b not in dropped}
            if not bad:
                raise
            # a failing template instantiation is reported once: entries of the same operation family (shuffle_*, rotate_*, ...) for the same
            # element type and architecture share it, so they are dropped together instead of being discovered one compile at a time
            fam = set()
            for b in bad:
                m = re.match(r"^e_([a-z]+)_[A-Za-z0-9_]*__([a-z0-9]+)__([a-z0-9_]+)$", b)
                if m and m.group(1) == "shuffle":     # (only where the shared failing instantiation is known: the constant swizzle inside shuffle)
                    fam.add((m.group(1), m.group(2), m.group(3)))
            more = {r for r in roots if r not in dropped and r not in bad and
                    any(r.startswith("e_%s_" % f[0]) and r.endswith("__%s__%s" % (f[1], f[2])) for f in fam)}
            bad |= more
            dropped += sorted(bad)
            lines = [l for l in lines if not any(('void %s(' % b) in l for b in bad)]
    raise Infra("extraction TU still does not compile after dropping rejected entries")


def run_groups(prop, groups, tier, seed, props_filter=None, ll2c_opts=None, workers=16, post_filter=None):
    """groups: {tag: (translation unit text, [entry names])}"""
    rep = Report(prop, tier, seed)
    wd = os.path.join(BUILD, "run_%s_%d" % (prop, os.getpid()))
    shutil.rmtree(wd, ignore_errors=True)
    os.makedirs(wd)
    try:
        all_tasks = []
        meta = {}
        for gname, gv in groups.items():
            tutext, roots = gv[0], gv[1]
            if len(gv) > 2 and gv[2]:
                bc, fnmap, tsec, roots, dropped = compile_dropping_rejected(wd, "tu_" + gname, tutext, roots)
                rep.notes.setdefault("entries_rejected_by_the_library", [])
                rep.notes["entries_rejected_by_the_library"] += dropped
            else:
                bc, fnmap, tsec = pipeline.compile_tu(wd, "tu_" + gname, tutext)
            fns = pipeline.discover(fnmap)
            if post_filter is not None:
                post_filter.fns = fns
            missing = [r for r in roots if r not in fnmap]
            if missing:
                raise Infra("entries missing from module: %s" % missing[:3])
            reach = pipeline.reachable(fnmap, roots)
            targets = sorted(n for n in reach if n in fns)
            if props_filter:
                targets = [n for n in targets if props_filter(fns[n])]
            log("[%s] %s: %d entries, %d functions in module, %d under contract, extraction %.1fs" % (prop, gname, len(roots), len(fnmap), len(targets), tsec))
            keep = sorted(fns.keys())
            jobs = []
            for i, n in enumerate(targets):
                job = {"target": n, "out": os.path.join(wd, "%s_%04d.c" % (gname, i)), "opts": dict({"align_asserts": True}, **(ll2c_opts or {}))}
                if fns[n].row.inline_ops:
                    job["unkeep"] = [m for m, g in fns.items() if g.op in fns[n].row.inline_ops and m != n]
                jobs.append(job)
            results = pipeline.run_ll2c(bc, jobs, wd, "tu_" + gname, keep_all=keep)
            for i, (n, job) in enumerate(zip(targets, results)):
                fn = fns[n]
                stem = "%s_%04d" % (gname, i)
                if post_filter and job.get("ok") and not post_filter(fn, job):
                    continue
                try:
                    t = build_target(fn, job, fns, wd, stem)
                    more = []
                    if t is not None and t["n_variants"] > 1:
                        # a contract stated as a finite case split (each case its own verification condition); all cases must be discharged
                        more = [build_target(fn, job, fns, wd, "%s_v%d" % (stem, v), variant=v) for v in range(1, t["n_variants"])]
                        t["variant"] = 0
                    for tv in more:
                        tv["fn"], tv["job"] = fn, job
                        meta[tv["stem"]] = tv
                        all_tasks.append(tv)
                except gen.Unsupported as e:
                    # instantiations whose shape the contract row does not describe are listed, never counted
                    rep.notes.setdefault("instantiations_without_contract", []).append({"fn": fn.sig.dem[:160], "reason": str(e)})
                    continue
                except Infra as e:
                    rep.infra.append({"fn": fn.sig.dem, "detail": str(e)})
                    continue
                if t is None:
                    continue
                t["fn"] = fn
                t["job"] = job
                meta[stem] = t
                all_tasks.append(t)
        # identical verification conditions (same C text modulo renaming of functions and struct tags) are proved once
        groups_by_hash = collections.OrderedDict()
        for t in all_tasks:
            t["vc_hash"] = canonical_hash(t)
            groups_by_hash.setdefault(t["vc_hash"], []).append(t)
        batch = []
        reps = []

        def prio(item):
            # under the quick tier's time budget the architecture-specific kernels go first, then the generic kernels, then the forwarding layers
            b = os.path.basename(item[1][0]["fn"].file)
            return 2 if b in ("xsimd_api.hpp", "xsimd_batch.hpp", "xsimd_scalar.hpp") else (1 if "generic" in b else 0)
        for h, ts in sorted(groups_by_hash.items(), key=prio):
            t = ts[0]
            tt = dict(t)
            tt.pop("fn"), tt.pop("job")
            tt["attempts"] = attempts_for(t["row_mode"], tier)
            batch.append(tt)
            reps.append(t)
        log("[%s] %d functions under contract, %d distinct verification conditions" % (prop, len(all_tasks), len(batch)))
        final = {}
        for t, r in zip(reps, pipeline.run_pool(batch, workers)):
            for dup in groups_by_hash[t["vc_hash"]]:
                if dup is t:
                    final[dup["stem"]] = r
                else:
                    rr = dict(r)
                    rr["same_vc_as"] = t["fn"].sig.dem
                    final[dup["stem"]] = rr
        for stem, r in sorted(final.items()):
            t = meta[stem]
            fn, job = t["fn"], t["job"]
            rec = {"dem": fn.sig.dem + (" [case %d of %d]" % (t["variant"], t["n_variants"]) if t.get("n_variants", 1) > 1 else ""), "name": fn.name, "file": fn.file.replace(REPO + "/", ""), "line": fn.line, "status": r["status"],
                   "n_props": r.get("n_props", 0), "mode": r["mode"], "backend": r["backend"], "seconds": r.get("seconds", 0),
                   "replaced": [c["demangled"].split("(")[0][-60:] for c in job["callees"]], "n_inlined": len(job.get("inlined", [])),
                   "detail": r.get("detail", ""), "failed": r.get("failed", []), "stem": stem, "fn_obj": fn, "task": t,
                   "same_vc_as": r.get("same_vc_as"), "history": r.get("history"), "ws_warn": r.get("write_set_arg_warnings")}
            rep.replaced.update(c["name"] for c in job["callees"])
            rep.solver_seconds += r.get("solver_seconds", 0)
            if r["status"] == "proved" and not r.get("same_vc_as"):
                rep.backends[r["backend"] + "/" + r["mode"]] += r.get("n_props", 0)
                if len(rep.samples) < 6:
                    rep.samples += [{"function": fn.sig.dem[:160], "obligation": s} for s in r.get("sample_props", [])[:1]]
            rep.targets.append(rec)
        rep.wd = wd
        return rep
    finally:
        pass
