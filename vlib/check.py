"""Generic driver for the contract checks over value kernels (C01-C09 family)."""
import os, json, time, shutil, sys, collections
from .common import *
from . import gen, table, pipeline, entries


class Report:
    def __init__(self, prop, tier, seed):
        self.prop, self.tier, self.seed = prop, tier, seed
        self.t0 = time.time()
        self.targets = []        # per verified function
        self.undecided = []
        self.infra = []
        self.violations = []     # (obligation, function, replay path, has_input)
        self.known = []
        self.assumptions = []
        self.notes = {}
        self.samples = []
        self.backends = collections.Counter()
        self.solver_seconds = 0.0
        self.replaced = set()
        self.bounded = []

    def evidence(self, extra_cov=None, trusted=None):
        obligations = sum(t["n_props"] for t in self.targets)
        discharged = sum(t["n_props"] for t in self.targets if t["status"] == "proved")
        cov = {
            "obligations": obligations, "discharged": discharged,
            "checker_cmd": "clang++-14 -O0 -emit-llvm (real headers) | ll2c | goto-cc | goto-instrument --dfcc harness --enforce-contract <fn> "
                           "--replace-call-with-contract <callee>* | cbmc --bounds-check --pointer-check --unwind K --unwinding-assertions",
            "trusted_base": trusted or [],
            "functions_under_contract": len(self.targets),
            "functions_proved": len([t for t in self.targets if t["status"] == "proved"]),
            "functions": [{"fn": t["dem"], "where": "%s:%s" % (t["file"], t["line"]), "status": t["status"], "obligations": t["n_props"],
                           "mode": t.get("mode"), "backend": t.get("backend"), "s": round(t.get("seconds", 0), 2),
                           "replaced_callees": t.get("replaced", []), "inlined": t.get("n_inlined", 0)} for t in self.targets],
            "callees_replaced_by_contract": sorted(self.replaced),
            "undecided": self.undecided, "bounded_stand_ins": self.bounded,
            "by_backend": dict(self.backends), "solver_seconds": round(self.solver_seconds, 1),
            "samples": self.samples[:6], "exhaustive": False,
        }
        cov.update(self.notes)
        if extra_cov:
            cov.update(extra_cov)
        return {"property_id": self.prop, "tier": self.tier, "seed": self.seed, "level": "proof", "coverage": cov,
                "assumptions": self.assumptions, "wall_s": round(time.time() - self.t0, 1), "violations": len(self.violations)}

    def write(self, **kw):
        os.makedirs(EVIDENCE, exist_ok=True)
        ev = self.evidence(**kw)
        with open(os.path.join(EVIDENCE, self.prop + ".json"), "w") as f:
            json.dump(ev, f, indent=1)
        return ev


TRUSTED = [
    "clang 14 front end: template instantiation, overload resolution and lowering of the real headers to LLVM IR (-O0)",
    "ll2c: LLVM IR -> C lowering (tools/ll2c), incl. LLVM's inliner and SROA pass run on the function under proof",
    "models/ll2c_models.h: C models of the llvm.x86.* intrinsics (Intel SDM semantics), differential-tested natively",
    "CBMC 6.11 bit-vector / IEEE-754 semantics, goto-instrument --dfcc contract instrumentation",
    "XSIMD_INLINE redefined to noinline (function boundaries only)",
]


def attempts_for(mode, tier):
    long_t = 600 if tier == "thorough" else 150
    if mode == "concrete":
        return [("concrete", "sat", long_t)]
    if mode == "uf":
        return [("uf", "sat", long_t)]
    if mode == "mul":
        return [("uf", "sat", 60), ("concrete", "cvc5int", long_t), ("concrete", "sat", long_t)]
    if mode == "ufadd":
        return [("ufadd", "sat", long_t)]
    raise Infra("unknown mode " + mode)


def build_target(fn, job, fns, wd, stem, ll2c_opts=None):
    """writes contracts + harness for one ll2c job result; returns task template (without mode/backend)"""
    if not job.get("ok"):
        raise Infra("ll2c: %s: %s" % (fn.sig.dem, job.get("error")))
    tinfo = job
    txt = ['#include "spec.h"\n']
    ctx = gen.bind(fn, job["target"], tinfo)
    fn.row.build(ctx)
    if getattr(ctx, "skip", None):
        return None
    txt.append(gen.contract_text(ctx, job["target"]["name"]))
    replace = []
    for c in job["callees"]:
        cf = fns.get(c["name"])
        if cf is None:
            raise Infra("callee without contract or body: %s (called from %s)" % (c["demangled"], fn.sig.dem))
        cctx = gen.bind(cf, c, tinfo)
        cf.row.build(cctx)
        # callee contracts: pointers must be readable at the call site
        txt.append(gen.contract_text(cctx, c["name"]))
        replace.append(c["name"])
    with open(os.path.join(wd, stem + "_contracts.h"), "w") as f:
        f.write("".join(txt))
    with open(os.path.join(wd, stem + "_harness.h"), "w") as f:
        f.write(gen.harness_text(ctx, job["target"]["name"]))
    unwind = 66  # model loops are bounded by the lane count (<= 64)
    for l in job.get("loops", []):
        if l["trip"] < 0:
            unwind = max(unwind, 70)
        else:
            unwind = max(unwind, l["trip"] + 2)
    return {"cfile": job["out"], "contracts": stem + "_contracts.h", "harness": stem + "_harness.h", "target": job["target"]["name"],
            "replace": replace, "unwind": unwind, "workdir": wd, "stem": stem}


def run_cases(prop, cases, tier, seed, props_filter=None, keep_workdir=False, ll2c_opts=None, workers=16):
    """cases: list of (op, tid, aid).  Verifies every contract-carrying function reachable from the entries."""
    rep = Report(prop, tier, seed)
    wd = os.path.join(BUILD, "run_%s_%d" % (prop, os.getpid()))
    shutil.rmtree(wd, ignore_errors=True)
    os.makedirs(wd)
    try:
        groups = {"x86": [c for c in cases if not c[2].startswith("emu")], "emu": [c for c in cases if c[2].startswith("emu")]}
        all_tasks = []
        meta = {}
        for gname, gcases in groups.items():
            if not gcases:
                continue
            bc, fnmap, tsec = pipeline.compile_tu(wd, "tu_" + gname, entries.tu_text(gcases, emulated=(gname == "emu")))
            fns = pipeline.discover(fnmap)
            roots = [entries.entry_name(*c) for c in gcases]
            missing = [r for r in roots if r not in fnmap]
            if missing:
                raise Infra("entries missing from module: %s" % missing[:3])
            reach = pipeline.reachable(fnmap, roots)
            targets = sorted(n for n in reach if n in fns)
            if props_filter:
                targets = [n for n in targets if props_filter(fns[n])]
            log("[%s] %s: %d entries, %d functions in module, %d under contract, extraction %.1fs" % (prop, gname, len(roots), len(fnmap), len(targets), tsec))
            keep = sorted(fns.keys())
            jobs = []
            for i, n in enumerate(targets):
                jobs.append({"target": n, "keep": keep, "out": os.path.join(wd, "%s_%04d.c" % (gname, i)), "opts": ll2c_opts or {}})
            results = pipeline.run_ll2c(bc, jobs, wd, "tu_" + gname)
            for i, (n, job) in enumerate(zip(targets, results)):
                fn = fns[n]
                stem = "%s_%04d" % (gname, i)
                try:
                    t = build_target(fn, job, fns, wd, stem)
                except gen.Unsupported as e:
                    rep.infra.append({"fn": fn.sig.dem, "detail": "unsupported: %s" % e})
                    continue
                except Infra as e:
                    rep.infra.append({"fn": fn.sig.dem, "detail": str(e)})
                    continue
                if t is None:
                    continue
                t["fn"] = fn
                t["job"] = job
                meta[stem] = t
                all_tasks.append(t)
        # first attempt for everything, then retries
        pending = [(t, 0) for t in all_tasks]
        final = {}
        while pending:
            batch = []
            for t, k in pending:
                att = attempts_for(t["fn"].row.mode, tier)
                mode, backend, tmo = att[k]
                tt = dict(t)
                tt.pop("fn"), tt.pop("job")
                tt.update(mode=mode, backend=backend, timeout=tmo)
                batch.append(tt)
            res = pipeline.run_pool(batch, workers)
            nxt = []
            for (t, k), r in zip(pending, res):
                att = attempts_for(t["fn"].row.mode, tier)
                r["attempt"] = k
                prev = final.get(t["stem"])
                # keep the most informative result: proved > concrete failure > others
                if r["status"] == "proved":
                    final[t["stem"]] = r
                    continue
                if prev is None or (r["status"] == "failed" and r["mode"] == "concrete") or prev["status"] in ("undecided", "infra"):
                    if not (prev and prev["status"] == "failed" and prev["mode"] == "concrete"):
                        final[t["stem"]] = r
                if k + 1 < len(att) and not (r["status"] == "failed" and r["mode"] == "concrete"):
                    nxt.append((t, k + 1))
            pending = nxt
        for stem, r in sorted(final.items()):
            t = meta[stem]
            fn, job = t["fn"], t["job"]
            rec = {"dem": fn.sig.dem, "name": fn.name, "file": fn.file.replace(REPO + "/", ""), "line": fn.line, "status": r["status"],
                   "n_props": r.get("n_props", 0), "mode": r["mode"], "backend": r["backend"], "seconds": r.get("seconds", 0),
                   "replaced": [c["demangled"].split("(")[0][-60:] for c in job["callees"]], "n_inlined": len(job.get("inlined", [])),
                   "detail": r.get("detail", ""), "failed": r.get("failed", []), "stem": stem, "fn_obj": fn, "task": t}
            rep.replaced.update(c["name"] for c in job["callees"])
            rep.solver_seconds += r.get("solver_seconds", 0)
            if r["status"] == "proved":
                rep.backends[r["backend"] + "/" + r["mode"]] += r.get("n_props", 0)
                if len(rep.samples) < 6:
                    rep.samples += [{"function": fn.sig.dem[:160], "obligation": s} for s in r.get("sample_props", [])[:1]]
            rep.targets.append(rec)
        rep.wd = wd
        return rep
    finally:
        if not keep_workdir and not os.environ.get("VERIF_KEEP"):
            pass  # removed by caller after replay generation
