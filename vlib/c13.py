"""C13: element-wise results depend only on the lane's own operands.  Lemma harnesses over the *contracts* of the public operations
(the bodies are not used: --replace-call-with-contract): f(X)[k] == f(broadcast(X[k]))[j] for a symbolic lane k and every j."""
import os, shutil
from .common import *
from . import check, special, pipeline, gen, table, entries, props
from .sig import Val, leaves

OPS13 = ["add", "sub", "mul", "neg", "abs", "min", "max", "incr", "decr", "fma", "fnms", "div", "mod", "sign", "sadd", "ssub", "avg", "avgr",
         "bitwise_and", "bitwise_xor", "bitwise_not", "bitwise_andnot", "bitwise_lshift_b", "bitwise_rshift_b", "rotl_b",
         "eq", "lt", "ge", "sqrt", "copysign", "isnan", "is_even", "ceil", "floor", "trunc", "round", "nearbyint",
         "batch_cast_to_f32", "batch_cast_to_i32", "batch_cast_to_u8", "to_int", "nearbyint_as_int"]


_KEEP_INTERPRETED = {"same", "samenum", "isnan", "iszero", "eq", "neq", "lt", "le", "gt", "ge", "divpre", "avgrpre", "minok", "maxok", "signok", "signnzok",
                     "isinf", "isfinite", "and", "or", "xor", "not", "andnot", "neg", "bitofsign"}


def spec_uf_block():
    """#ifdef SPEC_UF: the value-computing spec functions become uninterpreted symbols.  The lemma is a consequence of the lane-wise *shape*
    of a contract (result lane i is a function of operand lanes i), whatever that function is: proving it for an arbitrary function proves it
    for the real one, and spares the solver the equivalence of two copies of a rounding / multiplication / division circuit."""
    import re as _re
    sigs = {}
    with open(os.path.join(VERIF, "spec", "spec.h")) as f:
        for m in _re.finditer(r"static inline (_Bool|u##W) spec_([a-z_0-9]+)_##T\(([^)]*)\)", f.read()):
            sigs[m.group(2)] = (m.group(1), m.group(3).count(",") + 1)
    L = ["#ifdef SPEC_UF"]
    for tid in ALL_TYPES:
        w = TYPES[tid][2]
        for name, (ret, ar) in sorted(sigs.items()):
            if name in _KEEP_INTERPRETED:
                continue
            ps = ", ".join("p%d" % i for i in range(ar))
            uf = "__CPROVER_uninterpreted_specuf_%s_%s" % (name, tid)
            L.append("u%d %s(%s);" % (w, uf, ", ".join(["u%d" % w] * ar)))
            L.append("#define spec_%s_%s(%s) %s" % (name, tid, ps, ("(%s(%s) != 0)" if ret == "_Bool" else "%s(%s)") % (uf, ps)))
    for a in ALL_TYPES:
        for b in ALL_TYPES:
            if TYPES[a][3] == "f" or TYPES[b][3] == "f":
                L.append("u%d __CPROVER_uninterpreted_specuf_conv_%s_%s(u%d);" % (TYPES[b][2], a, b, TYPES[a][2]))
    L.append("#endif")
    return "\n".join(L) + "\n"


def fill_expr(val, tid, lane_exprs):
    """statements that set every leaf of object `val` so that lane i holds bit pattern lane_exprs[i]"""
    w = TYPES[tid][2] // 8
    out = []
    for (off, nb, kind, e) in val.lv:
        parts = []
        if nb >= w:
            for j in range(nb // w):
                lane = (off + j * w) // w
                parts.append("((u64)%s << %d)" % (lane_exprs[lane], 8 * j * w))
            bits = "(%s)" % " | ".join(parts)
        else:  # leaf narrower than the lane (does not occur for register types)
            lane = off // w
            bits = "((u64)%s >> %d)" % (lane_exprs[lane], 8 * (off - lane * w))
        if kind == "f":
            out.append("%s = U2F%d((u%d)%s);" % (e, nb * 8, nb * 8, bits))
        else:
            out.append("%s = (u%d)%s;" % (e, nb * 8, bits))
    return out


def pick(exprs, k):
    e = exprs[-1]
    for i in range(len(exprs) - 2, -1, -1):
        e = "(%s == %d ? %s : %s)" % (k, i, exprs[i], e)
    return e


def run(tier, seed):
    rep = check.Report("C13", tier, seed)
    wd = os.path.join(BUILD, "run_C13_%d" % os.getpid())
    shutil.rmtree(wd, ignore_errors=True)
    os.makedirs(wd)
    rep.wd = wd
    S = special.Simple(rep)
    archs = ["sse2", "avx512f"] if tier == "quick" else ["sse2", "avx2", "avx512f", "avx512bw"]
    types = ["i16", "u32", "f32", "f64"] if tier == "quick" else ALL_TYPES
    ops = os.environ.get("VERIF_C13_OPS", "").split(",") if os.environ.get("VERIF_C13_OPS") else OPS13     # development aid
    cases = [(o, t, a) for o in ops for t in types if t in entries.OPS[o][2] for a in archs]
    if tier == "quick":
        # the lemma does not depend on the lane count: the 512-bit registers are sampled with their two cheapest element types
        cases = [c for c in cases if c[2] == "sse2" or c[1] in ("u32", "f64")]
    roots = [entries.entry_name(*c) for c in cases]
    bc, fnmap, tsec = pipeline.compile_tu(wd, "c13", entries.tu_text(cases))
    fns = pipeline.discover(fnmap)
    keep = sorted(fns.keys())
    jobs = [{"target": r, "out": os.path.join(wd, "e%04d.c" % i)} for i, r in enumerate(roots)]
    res = pipeline.run_ll2c(bc, jobs, wd, "c13", keep_all=keep)
    B = special.Batch()
    UFB = spec_uf_block()
    skipped = []
    for (o, t, a), j, r in zip(cases, jobs, res):
        if not r.get("ok"):
            rep.infra.append({"fn": j["target"], "detail": "ll2c: " + str(r.get("error"))})
            continue
        # the operation = the single contract-carrying callee of the entry
        cands = [c for c in r["callees"] if c["name"] in fns]
        if len(cands) != 1 or len(r["callees"]) != 1:
            skipped.append(j["target"])
            continue
        c = cands[0]
        fn = fns[c["name"]]
        if any(k not in "B" for k in fn.kinds) or fn.row.ret not in ("B", "M"):
            skipped.append(j["target"])
            continue
        if fn.op in ("fma", "fms", "fnma", "fnms") and TYPES[fn.tid][3] == "f":
            # the contract allows the fused or the unfused result per call: lane independence is not a consequence of it
            skipped.append(j["target"] + " (fused/unfused latitude)")
            continue
        try:
            cctx = gen.bind(fn, c, r)
            fn.row.build(cctx)
        except gen.Unsupported:
            skipped.append(j["target"])
            continue
        n = cctx.n
        nargs = len(cctx.args)
        ptypes = [p["type"] for p in c["params"] if not p["sret"]][:nargs]
        sret = [p for p in c["params"] if p["sret"]]
        ret_ctype = sret[0]["type"][:-1].strip() if sret else c["ret"]
        L = ['#include "spec.h"\n', UFB, gen.contract_text(cctx, c["name"])]
        # lemma function: X_i arbitrary, Y_i = broadcast(X_i[k]) for a symbolic lane k
        rt = cctx.ret.tid or fn.tid
        H = []
        H.append("u8 lemma(%s, u32 k)" % ", ".join("%s X%d, %s Y%d" % (pt, i, pt, i) for i, pt in enumerate(ptypes)))
        req = ["k < %d" % n]
        for i, pt in enumerate(ptypes):
            xv, yv = Val(pt, "X%d" % i, r), Val(pt, "Y%d" % i, r)
            at = cctx.args[i].tid
            xl = [xv.lane(at, q) for q in range(lanes(at, fn.aid))]
            for q in range(lanes(at, fn.aid)):
                req.append("%s == %s" % (yv.lane(at, q), pick(xl, "k")))
        # the operation's own preconditions must hold for both calls: assume them for X, they then hold lane-wise for Y
        pre_x = [q for q in cctx.requires]
        body = []
        tmpl_call = lambda pfx, out: ("%s(%s%s)" % (c["name"], ("&%s, " % out) if sret else "", ", ".join("%s%d" % (pfx, i) for i in range(nargs))))
        body.append("  %s R1; %s R2;" % (ret_ctype, ret_ctype))
        if sret:
            body.append("  %s; %s;" % (tmpl_call("X", "R1"), tmpl_call("Y", "R2")))
        else:
            body.append("  R1 = %s; R2 = %s;" % (tmpl_call("X", None), tmpl_call("Y", None)))
        r1, r2 = Val(ret_ctype, "R1", r), Val(ret_ctype, "R2", r)
        if fn.row.ret == "M":
            a1, a2 = gen.Arg("M", rt, fn.aid, r1), gen.Arg("M", rt, fn.aid, r2)
            l1 = [a1.truth(q) for q in range(n)]
            l2 = [a2.truth(q) for q in range(n)]
            same = lambda x, y: "((%s) == (%s))" % (x, y)
        else:
            nr = lanes(rt, fn.aid)
            l1 = [r1.lane(rt, q) for q in range(nr)]
            l2 = [r2.lane(rt, q) for q in range(nr)]
            if TYPES[rt][3] == "f" and fn.op in ("min", "max", "ceil", "floor", "trunc", "round", "nearbyint", "rint", "sign"):
                # C02/C08 leave the sign of a zero result open for these: the lemma is stated up to the sign of zero
                same = lambda x, y: "spec_samenum_%s(%s, %s)" % (rt, x, y)
            elif TYPES[rt][3] == "f":
                same = lambda x, y: "spec_same_%s(%s, %s)" % (rt, x, y)
            else:
                same = lambda x, y: "(%s == %s)" % (x, y)
        conds = [same(pick(l1, "k"), l2[0])] + [same(l2[q], l2[0]) for q in range(1, len(l2))]
        body.append("  return (u8)(%s);" % " && ".join(conds))
        # operation preconditions, expressed on the lemma's parameter names (X for the first call, Y for the second)
        def rename(txt, pfx):
            import re as _re
            for i, arg in enumerate(cctx.args):
                if hasattr(arg, "cname"):
                    txt = _re.sub(r"(?<![A-Za-z0-9_])%s(?![A-Za-z0-9_])" % _re.escape(arg.cname), "(%s%d)" % (pfx, i), txt)
            return txt
        reqs_all = req + [rename(q, "X") for q in pre_x] + [rename(q, "Y") for q in pre_x]
        lane_pre = getattr(cctx, "lane_pre", None)
        if lane_pre:
            # contracts stated per lane under a representability condition: the lemma speaks of a lane k that satisfies it
            reqs_all.append(pick([rename(q, "X") for q in lane_pre], "k"))
            reqs_all += [rename(q, "Y") for q in lane_pre]
        L.append("#define CONTRACT_lemma \\\n" + "".join("  __CPROVER_requires(%s) \\\n" % q for q in reqs_all) + "  __CPROVER_ensures(__CPROVER_return_value == 1) \\\n  __CPROVER_assigns()\n")
        H[0] = H[0] + "\n  CONTRACT_lemma\n{"
        H += body + ["}"]
        H.append("void harness(void) {")
        if TYPES[t][3] == "f" or TYPES[rt][3] == "f" or getattr(cctx, "uses_float", False):
            H.append("  ll_use_libm();     /* spec functions used only inside contracts need their library bodies (dfcc stubs them otherwise) */")
        call = []
        for i, pt in enumerate(ptypes):
            base = pt[:-1].strip()
            H.append("  %s OX%d; %s OY%d;" % (base, i, base, i))
            call += ["&OX%d" % i, "&OY%d" % i]
        H.append("  u32 k; lemma(%s, k);" % ", ".join(call))
        H.append('  __CPROVER_assert(0, "canary: end of harness is reachable");\n}')
        title = "lane independence of %s [%s, %s]" % (fn.sig.qual, t, a)
        mode = fn.row.mode
        att = [("specuf", "sat", 60), ("specuf", "z3", 60)] + [a for a in check.attempts_for(mode, tier) if a[0] == "concrete"]
        B.add((lambda rr, title=title, cn=c["demangled"]: S.add(title, "contract of " + cn.split("(")[0][-60:], rr, replaced=[cn.split("(")[0][-60:]])),
              wd, "e%04d" % jobs.index(j), j["out"], "".join(L), "\n".join(H) + "\n", "lemma", replace=[c["name"]], attempts=att)
    B.run()
    rep.notes["skipped_entries"] = skipped[:40]
    rep.notes["argument"] = ("each lemma is discharged from the lane-wise postcondition of the operation's contract alone; the contracts themselves are enforced on the "
                             "real code by the checks of C01-C08")
    rep.assumptions += ["NaN results are compared up to payload (the hardware's payload propagation is not modelled)",
                        "elementary-function clause of the statement (accuracy under arbitrary companions) is not claimed"]
    return special.finish_special(rep, "C13")
