"""Generation of the extraction translation units: one extern "C" entry per (operation, element type, architecture).
The entries only force clang to instantiate the real templates (overload resolution, architecture dispatch);
they are not themselves verified."""
from .common import TYPES, ARCHS, INT_TYPES, FLOAT_TYPES, ALL_TYPES

# op id -> (C++ expression over a,b,c (batches), m (batch_bool), n (int), s (scalar T); argument kinds; element types; result kind)
OPS = {}


def op(name, expr, kinds, types, ret="B"):
    OPS[name] = (expr, kinds, types, ret)


for _n in ("add", "sub", "mul", "div", "min", "max"):
    op(_n, "xsimd::%s(a, b)" % _n, "BB", ALL_TYPES)
op("mod", "xsimd::mod(a, b)", "BB", INT_TYPES)
for _n in ("neg", "abs"):
    op(_n, "xsimd::%s(a)" % _n, "B", ALL_TYPES)
for _n in ("incr", "decr", "sign"):
    op(_n, "xsimd::%s(a)" % _n, "B", INT_TYPES)
for _n in ("incr_if", "decr_if"):
    op(_n, "xsimd::%s(a, m)" % _n, "BM", INT_TYPES)
for _n in ("fma", "fms", "fnma", "fnms"):
    op(_n, "xsimd::%s(a, b, c)" % _n, "BBB", ALL_TYPES)
for _n in ("sadd", "ssub", "avg", "avgr"):
    op(_n, "xsimd::%s(a, b)" % _n, "BB", INT_TYPES)
# C07
for _n in ("bitwise_and", "bitwise_or", "bitwise_xor", "bitwise_andnot"):
    op(_n, "xsimd::%s(a, b)" % _n, "BB", ALL_TYPES)
op("bitwise_not", "xsimd::bitwise_not(a)", "B", ALL_TYPES)
for _n in ("bitwise_lshift", "bitwise_rshift", "rotl", "rotr"):
    op(_n + "_s", "xsimd::%s(a, n)" % _n, "BI", INT_TYPES)
    op(_n + "_b", "xsimd::%s(a, b)" % _n, "BB", INT_TYPES)
# C02 / C08
for _n in ("sqrt", "bitofsign", "sign", "signnz", "ceil", "floor", "trunc", "round", "nearbyint", "rint"):
    op(_n, "xsimd::%s(a)" % _n, "B", FLOAT_TYPES)
op("copysign", "xsimd::copysign(a, b)", "BB", FLOAT_TYPES)
op("nextafter", "xsimd::nextafter(a, b)", "BB", FLOAT_TYPES)
op("clip", "xsimd::clip(a, b, c)", "BBB", ALL_TYPES)
for _n in ("isnan", "isinf", "isfinite", "is_flint", "is_even", "is_odd"):
    op(_n, "xsimd::%s(a)" % _n, "B", FLOAT_TYPES, "M")
# C03
for _n in ("eq", "neq", "lt", "le", "gt", "ge"):
    op(_n, "xsimd::%s(a, b)" % _n, "BB", ALL_TYPES, "M")
op("select", "xsimd::select(m, a, b)", "MBB", ALL_TYPES)
op("bool_and", "m & m2", "MM", ALL_TYPES, "M")
op("bool_or", "m | m2", "MM", ALL_TYPES, "M")
op("bool_xor", "m ^ m2", "MM", ALL_TYPES, "M")
op("bool_not", "~m", "M", ALL_TYPES, "M")
op("bool_lnot", "!m", "M", ALL_TYPES, "M")
op("bool_eq", "m == m2", "MM", ALL_TYPES, "M")
op("bool_neq", "m != m2", "MM", ALL_TYPES, "M")
op("bool_andnot", "xsimd::bitwise_andnot(m, m2)", "MM", ALL_TYPES, "M")
for _n in ("any", "all", "none", "count"):
    op("bool_" + _n, "xsimd::%s(m)" % _n, "M", ALL_TYPES, "X")
op("bool_mask", "m.mask()", "M", ALL_TYPES, "X")
op("bool_land", "m && m2", "MM", ALL_TYPES, "M")
op("bool_from_mask", "xsimd::batch_bool<T, A>::from_mask(u)", "u", ALL_TYPES, "M")
op("bool_lor", "m || m2", "MM", ALL_TYPES, "M")


# C06: conversions between same-width element types
CAST_PAIRS = {"i8": ["u8"], "u8": ["i8"], "i16": ["u16"], "u16": ["i16"], "i32": ["u32", "f32"], "u32": ["i32", "f32"], "f32": ["i32", "u32"],
              "i64": ["u64", "f64"], "u64": ["i64", "f64"], "f64": ["i64", "u64"]}
for _src, _dsts in CAST_PAIRS.items():
    for _d in _dsts:
        op("batch_cast_to_%s" % _d, "xsimd::batch_cast<%s>(a)" % TYPES[_d][0], "B", [t for t in CAST_PAIRS if _d in CAST_PAIRS[t]], "R:" + _d)
        op("bitwise_cast_to_%s" % _d, "xsimd::bitwise_cast<%s>(a)" % TYPES[_d][0], "B", [t for t in CAST_PAIRS if _d in CAST_PAIRS[t]], "R:" + _d)
        op("bool_cast_to_%s" % _d, "xsimd::batch_bool_cast<%s>(m)" % TYPES[_d][0], "M", [t for t in CAST_PAIRS if _d in CAST_PAIRS[t]], "RM:" + _d)
# converting loads / stores (load_as / store_as): memory of element type SRC, batch of T
for _src in ("i32", "f32", "i64", "f64", "u8", "i16"):
    op("load_as_from_%s" % _src, "xsimd::load_as<T, A>((%s const*)(void const*)p, xsimd::unaligned_mode())" % TYPES[_src][0], "p", [t for t in ALL_TYPES if t != _src])
    op("store_as_to_%s" % _src, "(xsimd::store_as((%s*)(void*)q, a, xsimd::unaligned_mode()), a)" % TYPES[_src][0], "Bq", [t for t in ALL_TYPES if t != _src])
op("to_int", "xsimd::to_int(a)", "B", FLOAT_TYPES, "R:int")
op("to_float", "xsimd::to_float(a)", "B", ["i32", "i64"], "R:float")
op("nearbyint_as_int", "xsimd::nearbyint_as_int(a)", "B", FLOAT_TYPES, "R:int")
op("ldexp", "xsimd::ldexp(a, *(xsimd::batch<xsimd::as_integer_t<T>, A> const*)(void const*)p_b)", "BB", FLOAT_TYPES)
op("frexp", "xsimd::frexp(a, *(xsimd::batch<xsimd::as_integer_t<T>, A>*)(void*)q)", "Bq", FLOAT_TYPES)
# C16: complex batches (z, w complex batches of element type T)
for _n, _e, _r in (("cadd", "z + w", "C"), ("csub", "z - w", "C"), ("cneg", "-z", "C"), ("cconj", "xsimd::conj(z)", "C"), ("creal", "xsimd::real(z)", "B"),
                   ("cimag", "xsimd::imag(z)", "B"), ("ceq", "z == w", "M"), ("cneq", "z != w", "M"), ("cmul", "z * w", "C"), ("cdiv", "z / w", "C"),
                   ("cfma", "xsimd::fma(z, w, v)", "C"), ("cfms", "xsimd::fms(z, w, v)", "C"), ("cfnma", "xsimd::fnma(z, w, v)", "C"),
                   ("cfnms", "xsimd::fnms(z, w, v)", "C")):
    op(_n, _e, "ZZZ" if "v" in _e else "ZZ" if "w" in _e else "Z", FLOAT_TYPES, _r)
op("cload_aligned", "xsimd::batch<std::complex<T>, A>::load_aligned(pc)", "k", FLOAT_TYPES, "C")
op("cload_unaligned", "xsimd::batch<std::complex<T>, A>::load_unaligned(pc)", "k", FLOAT_TYPES, "C")
op("cstore_aligned", "(z.store_aligned(qc), z)", "Zl", FLOAT_TYPES, "C")
op("cstore_unaligned", "(z.store_unaligned(qc), z)", "Zl", FLOAT_TYPES, "C")
# C09: reductions
for _n in ("reduce_add", "reduce_max", "reduce_min"):
    op(_n, "xsimd::%s(a)" % _n, "B", ALL_TYPES, "T")
op("haddp", "xsimd::haddp(p_a)", "B", FLOAT_TYPES)
op("transpose", "(xsimd::transpose(q, q + B::size), q[0])", "Q", ALL_TYPES)
# C05: data movement
op("zip_lo", "xsimd::zip_lo(a, b)", "BB", ALL_TYPES)
op("zip_hi", "xsimd::zip_hi(a, b)", "BB", ALL_TYPES)
op("swizzle_dyn", "xsimd::swizzle(a, *(xsimd::batch<xsimd::as_unsigned_integer_t<T>, A> const*)(void const*)p_b)", "BB", ALL_TYPES)
op("compress", "xsimd::compress(a, m)", "BM", ALL_TYPES)
op("expand", "xsimd::expand(a, m)", "BM", ALL_TYPES)
op("extract_pair", "xsimd::extract_pair(a, b, (std::size_t)n)", "BBI", ALL_TYPES)
for _k in (0, 1, 2, 3):
    op("insert_%d" % _k, "xsimd::insert(a, s, xsimd::index<%d>())" % _k, "BS", ALL_TYPES)
for _k in (0, 1, 3, 4, 7, 8, 12):
    op("slide_left_%d" % _k, "xsimd::slide_left<%d>(a)" % _k, "B", INT_TYPES)
    op("slide_right_%d" % _k, "xsimd::slide_right<%d>(a)" % _k, "B", INT_TYPES)
for _k in (0, 1, 3):
    op("rotate_left_%d" % _k, "xsimd::rotate_left<%d>(a)" % _k, "B", ALL_TYPES)
    op("rotate_right_%d" % _k, "xsimd::rotate_right<%d>(a)" % _k, "B", ALL_TYPES)
# shuffle with compile-time index packs (generated per lane count): out[i] = idx[i] < n ? x[idx[i]] : y[idx[i] - n]
SHUFFLE_PACKS = {
    "zipstride": lambda n: [(i if i % 2 == 0 else n + i - 1) for i in range(n)],           # 0, n, 2, n+2, ...   (not a zip)
    "ziplo": lambda n: [(i // 2 if i % 2 == 0 else n + i // 2) for i in range(n)],          # 0, n, 1, n+1, ...
    "ziphi": lambda n: [(n // 2 + i // 2 if i % 2 == 0 else n + n // 2 + i // 2) for i in range(n)],
    "rev": lambda n: [2 * n - 1 - i for i in range(n)],
    "mix": lambda n: [(3 * i + 1) % (2 * n) for i in range(n)],
    "sel": lambda n: [(i if i % 2 == 0 else n + i) for i in range(n)],
    "fstrev": lambda n: [n - 1 - i for i in range(n)],
    # near misses of the per-128-bit-lane fast paths (shuffle_ps / shuffle_pd / blend): the right operand per position, the wrong half
    "lodup": lambda n: [(0 if i % 2 == 0 else n + i - 1) for i in range(n)],               # 0, n, 0, n+2, ...
    "pairswap": lambda n: [((i ^ 1) if i % 2 == 0 else n + (i ^ 1)) for i in range(n)],  # 1, n, 3, n+2, ...
}
for _k in SHUFFLE_PACKS:
    op("shuffle_" + _k, "xsimd::shuffle(a, b, xsimd::batch_constant<xsimd::as_unsigned_integer_t<T>, A, {PACK:%s}>{})" % _k, "BB", ALL_TYPES)
# C04
op("load_aligned", "B::load_aligned(p)", "p", ALL_TYPES)
op("load_unaligned", "B::load_unaligned(p)", "p", ALL_TYPES)
op("store_aligned", "(a.store_aligned(q), a)", "Bq", ALL_TYPES)
op("store_unaligned", "(a.store_unaligned(q), a)", "Bq", ALL_TYPES)
op("broadcast", "B(s)", "S", ALL_TYPES)
op("get", "a.get((std::size_t)n)", "BI", ALL_TYPES, "T")
op("bool_get", "(uint64_t)m.get((std::size_t)n)", "MI", ALL_TYPES, "X")
# gather / scatter (same element type; index batch of the unsigned / signed integer type of the same width)
op("gather", "B::gather(p, *(xsimd::batch<xsimd::as_unsigned_integer_t<T>, A> const*)(void const*)p_a)", "pB", ALL_TYPES)
op("gather_s", "B::gather(p, *(xsimd::batch<xsimd::as_integer_t<T>, A> const*)(void const*)p_a)", "pB", ALL_TYPES)
op("scatter", "(a.scatter(q, *(xsimd::batch<xsimd::as_unsigned_integer_t<T>, A> const*)(void const*)p_b), a)", "BqB", ALL_TYPES)
# bool arrays <-> batch_bool
op("bool_load_aligned", "xsimd::batch_bool<T, A>::load_aligned(pb)", "x", ALL_TYPES, "M")
op("bool_load_unaligned", "xsimd::batch_bool<T, A>::load_unaligned(pb)", "x", ALL_TYPES, "M")
op("bool_store_aligned", "(m.store_aligned(qb), m)", "My", ALL_TYPES, "M")
op("bool_store_unaligned", "(m.store_unaligned(qb), m)", "My", ALL_TYPES, "M")


def entry_name(opn, tid, aid):
    return "e_%s__%s__%s" % (opn, tid, aid)


def entry_text(opn, tid, aid):
    expr, kinds, types, ret = OPS[opn]
    T, A = TYPES[tid][0], ARCHS[aid][0]
    B = "xsimd::batch<%s, %s>" % (T, A)
    M = "xsimd::batch_bool<%s, %s>" % (T, A)
    names = {"B": iter(["a", "b", "c"]), "M": iter(["m", "m2"]), "I": iter(["n"]), "S": iter(["s"]), "p": iter(["p"]), "q": iter(["q"]), "Z": iter(["z", "w", "v"]), "Q": iter(["q"]), "x": iter(["pb"]), "y": iter(["qb"]), "U": iter(["pu"]), "V": iter(["qu"]), "J": iter(["idx"]), "k": iter(["pc"]), "l": iter(["qc"]), "u": iter(["u"])}
    Cb = "xsimd::batch<std::complex<%s>, %s>" % (T, A)
    params, prologue = [], []
    for k in kinds:
        nm = next(names[k])
        if k == "B":
            params.append("%s const* p_%s" % (B, nm))
            prologue.append("%s const& %s = *p_%s;" % (B, nm, nm))
        elif k == "M":
            params.append("%s const* p_%s" % (M, nm))
            prologue.append("%s const& %s = *p_%s;" % (M, nm, nm))
        elif k == "I":
            params.append("int %s" % nm)
        elif k == "S":
            params.append("%s %s" % (T, nm))
        elif k == "Z":
            params.append("%s const* p_%s" % (Cb, nm))
            prologue.append("%s const& %s = *p_%s;" % (Cb, nm, nm))
        elif k == "p":
            params.append("%s const* %s" % (T, nm))
        elif k == "q":
            params.append("%s* %s" % (T, nm))
        elif k == "Q":
            params.append("%s* %s" % (B, nm))
        elif k == "u":
            params.append("uint64_t %s" % nm)
        elif k == "k":
            params.append("std::complex<%s> const* %s" % (T, nm))
        elif k == "l":
            params.append("std::complex<%s>* %s" % (T, nm))
        elif k == "x":
            params.append("bool const* %s" % nm)
        elif k == "y":
            params.append("bool* %s" % nm)
    if ret.startswith("RM:"):
        R = "xsimd::batch_bool<%s, %s>" % (TYPES[ret[3:]][0], A)
    elif ret.startswith("R:"):
        d = ret[2:]
        if d == "int":
            d = {"f32": "i32", "f64": "i64"}[tid]
        elif d == "float":
            d = {"i32": "f32", "i64": "f64"}[tid]
        R = "xsimd::batch<%s, %s>" % (TYPES[d][0], A)
    else:
        R = {"B": B, "M": M, "X": "uint64_t", "T": T, "C": Cb}[ret]
    if "{PACK:" in expr:
        from .common import lanes
        kind = expr[expr.index("{PACK:") + 6:expr.index("}", expr.index("{PACK:"))]
        expr = expr.replace("{PACK:%s}" % kind, ", ".join(str(v) for v in SHUFFLE_PACKS[kind](lanes(tid, aid))))
    return 'extern "C" void %s(%s* r%s) { typedef %s B; typedef %s T; typedef %s A; %s *r = %s; }\n' % (
        entry_name(opn, tid, aid), R, "".join(", " + p for p in params), B, T, A, " ".join(prologue), expr)


def tu_text(cases, emulated=False):
    head = ""
    if emulated:
        head += "#define XSIMD_WITH_EMULATED 1\n"
    head += "#include <xsimd/xsimd.hpp>\n#include <cstdint>\n#include <complex>\n"
    return head + "".join(entry_text(*c) for c in cases)


# ---- scalar overloads (C17) ---------------------------------------------------------------------------------------
SOPS = {}
for _n in ("add", "sub", "mul", "div", "mod", "min", "max", "sadd", "ssub", "avg", "avgr", "bitwise_and", "bitwise_or", "bitwise_xor",
           "bitwise_andnot"):
    SOPS[_n] = ("xsimd::%s(a, b)" % _n, "TT", INT_TYPES, "T")
for _n in ("neg", "abs", "incr", "decr", "bitwise_not", "sign"):
    SOPS[_n] = ("xsimd::%s(a)" % _n, "T", INT_TYPES, "T")
for _n in ("fma", "fms", "fnma", "fnms"):
    SOPS[_n] = ("xsimd::%s(a, b, c)" % _n, "TTT", INT_TYPES, "T")
for _n in ("bitwise_lshift", "bitwise_rshift", "rotl", "rotr"):
    SOPS[_n] = ("xsimd::%s(a, n)" % _n, "TI", INT_TYPES, "T")
for _n in ("eq", "neq", "lt", "le", "gt", "ge"):
    SOPS[_n] = ("xsimd::%s(a, b)" % _n, "TT", ALL_TYPES, "bool")
for _n in ("incr_if", "decr_if"):
    SOPS[_n] = ("xsimd::%s(a, m)" % _n, "Tb", INT_TYPES, "T")
# floating scalar overloads
for _n in ("add", "sub", "mul", "div", "min", "max"):
    SOPS[_n + "_f"] = ("xsimd::%s(a, b)" % _n, "TT", FLOAT_TYPES, "T")
for _n in ("neg", "abs"):
    SOPS[_n + "_f"] = ("xsimd::%s(a)" % _n, "T", FLOAT_TYPES, "T")
for _n in ("fma", "fms", "fnma", "fnms"):
    SOPS[_n + "_f"] = ("xsimd::%s(a, b, c)" % _n, "TTT", FLOAT_TYPES, "T")
for _n in ("is_flint", "is_even", "is_odd"):
    SOPS[_n] = ("xsimd::%s(a)" % _n, "T", FLOAT_TYPES, "bool")
SOPS["nearbyint_as_int"] = ("xsimd::nearbyint_as_int(a)", "T", FLOAT_TYPES, "NBI")
SOPS["select"] = ("xsimd::select(m, a, b)", "bTT", ALL_TYPES, "T")
SOPS["clip"] = ("xsimd::clip(a, b, c)", "TTT", ALL_TYPES, "T")


def scalar_entry_name(opn, tid):
    return "es_%s__%s" % (opn, tid)


def scalar_entry_text(opn, tid):
    expr, kinds, types, ret = SOPS[opn]
    T = TYPES[tid][0]
    names = {"T": iter(["a", "b", "c"]), "I": iter(["n"]), "b": iter(["m"])}
    params = []
    for k in kinds:
        nm = next(names[k])
        params.append("%s %s" % ({"T": T, "I": "int", "b": "bool"}[k], nm))
    R = T if ret == "T" else ({"f32": "int32_t", "f64": "int64_t"}[tid] if ret == "NBI" else ret)
    return 'extern "C" void %s(%s* r, %s) { *r = %s; }\n' % (scalar_entry_name(opn, tid), R, ", ".join(params), expr)
