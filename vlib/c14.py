"""C14: termination in bounded time.  (i) mechanical loop inventory over the public math functions; (ii) a constant iteration bound for
every data-dependent loop, discharged as unwinding assertions (for all inputs) on the function that contains the loop, callees by contract;
the argument ranges that make the bounds valid are preconditions proved at the call sites of the enclosing functions."""
import os, shutil, re, json, subprocess
from .common import *
from . import check, special, pipeline, gen, table
from .sig import Val

MATH_UNARY = ["exp", "exp2", "exp10", "expm1", "log", "log2", "log10", "log1p", "sin", "cos", "tan", "asin", "acos", "atan", "sinh", "cosh", "tanh",
              "asinh", "acosh", "atanh", "cbrt", "erf", "erfc", "tgamma", "lgamma", "sqrt", "abs", "ceil", "floor", "trunc", "round", "nearbyint", "rint"]
MATH_BINARY = ["pow", "atan2", "hypot", "fmod", "remainder", "fdim", "fmin", "fmax"]

# known data-dependent loops: (function-name regex, source file suffix) -> bound on the iteration count
# bounds: tgamma_other: x < 180 decreasing to < 3 (177), x >= -33 increasing to >= 0 (34), < 2 (2);
# lgamma<double>::other: u < 13 decreasing (10), u >= -34 increasing to >= 2 (37); lgamma<float>::other: tx in (2.5,6.5) (4), tx >= 0 to 1.5 (2)
LOOP_FUNCS = [
    (r"xsimd::kernel::detail::tgamma_other<", 182, "tgamma_other"),
    (r"xsimd::kernel::detail::lgamma_impl<xsimd::batch<double, [^>]+> ?>::other\(", 40, "lgamma_impl<double>::other"),
    (r"xsimd::kernel::detail::lgamma_impl<xsimd::batch<float, [^>]+> ?>::other\(", 8, "lgamma_impl<float>::other"),
    (r" xsimd::detail::ipow<", 66, "ipow"),
]
IPOW_SCALAR = [("float", "int"), ("double", "int"), ("double", "long"), ("float", "short"), ("double", "unsigned long")]
CALLERS = [
    (r"xsimd::kernel::detail::lgamma_impl<xsimd::batch<double, [^>]+> ?>::compute\(", "lgamma_impl<double>::compute"),
    (r"xsimd::kernel::detail::lgamma_impl<xsimd::batch<float, [^>]+> ?>::compute\(", "lgamma_impl<float>::compute"),
    (r"xsimd::batch<(float|double), [^>]+> xsimd::kernel::tgamma<[^>]+>\(.*xsimd::generic const&\)", "kernel::tgamma (generic)"),
]


def lane_f(v, tid, i):
    w = TYPES[tid][2]
    return "U2F%d(%s)" % (w, v.lane(tid, i))


def run(tier, seed):
    rep = check.Report("C14", tier, seed)
    wd = os.path.join(BUILD, "run_C14_%d" % os.getpid())
    shutil.rmtree(wd, ignore_errors=True)
    os.makedirs(wd)
    rep.wd = wd
    S = special.Simple(rep)
    archs = (["sse2", "avx2", "avx512f"] if not os.environ.get("C14_SSE2_ONLY") else ["sse2"]) if tier == "thorough" else ["sse2"]
    tu = ["#include <xsimd/xsimd.hpp>", "#include <cstdint>"]
    roots = []
    for a in archs:
        for t in FLOAT_TYPES:
            B = "xsimd::batch<%s, %s>" % (TYPES[t][0], ARCHS[a][0])
            for f in MATH_UNARY:
                n = "e_%s__%s__%s" % (f, t, a)
                tu.append('extern "C" void %s(%s* r, %s const* x) { *r = xsimd::%s(*x); }' % (n, B, B, f))
                roots.append(n)
            for f in MATH_BINARY:
                n = "e_%s__%s__%s" % (f, t, a)
                tu.append('extern "C" void %s(%s* r, %s const* x, %s const* y) { *r = xsimd::%s(*x, *y); }' % (n, B, B, B, f))
                roots.append(n)
            n = "e_ipow__%s__%s" % (t, a)
            tu.append('extern "C" void %s(%s* r, %s const* x, int k) { *r = xsimd::pow(*x, k); }' % (n, B, B))
            roots.append(n)
    for k, (t0, t1) in enumerate(IPOW_SCALAR):
        n = "es_ipow_%d" % k
        tu.append('extern "C" void %s(%s* r, %s x, %s k) { *r = xsimd::pow(x, k); }' % (n, t0, t0, t1))
        roots.append(n)
    bc, fnmap, tsec = pipeline.compile_tu(wd, "c14", "\n".join(tu) + "\n")
    fns = pipeline.discover(fnmap)
    keep = sorted(fns.keys())
    # ---- (i) loop inventory: every public math entry with everything that has no contract inlined
    loopfn = {}
    for n, f in fnmap.items():
        if not f.get("defined"):
            continue
        for rx, bound, label in LOOP_FUNCS:
            if re.search(rx, f["demangled"]):
                loopfn[n] = (bound, label)
    callers = {}
    for n, f in fnmap.items():
        if f.get("defined"):
            for rx, label in CALLERS:
                if re.search(rx, f["demangled"]):
                    callers[n] = label
    inv_jobs = [{"target": r, "out": os.path.join(wd, "inv_%04d.c" % i), "keep": list(loopfn.keys()) + list(callers.keys())} for i, r in enumerate(roots)]
    inv_jobs += [{"target": n, "out": os.path.join(wd, "invc_%04d.c" % i), "keep": list(loopfn.keys()) + [m for m in callers if m != n]} for i, n in enumerate(sorted(callers))]
    inv_res = pipeline.run_ll2c(bc, inv_jobs, wd, "c14inv", keep_all=keep)
    unknown_loops, const_loops, recursion = [], 0, []
    rempio2_loops, stl_loops, ipow_loops = set(), set(), set()
    reach_all = pipeline.reachable(fnmap, roots)
    for j, r in zip(inv_jobs, inv_res):
        if not r.get("ok"):
            rep.infra.append({"fn": j["target"], "detail": "ll2c: " + str(r.get("error"))})
            continue
        for l in r.get("loops", []):
            if l["trip"] >= 0:
                const_loops += 1
            elif os.path.basename(l["file"]) == "xsimd_rem_pio2.hpp":
                rempio2_loops.add("%s:%s" % (os.path.basename(l["file"]), l["line"]))
            elif "/c++/" in l["file"] or os.path.basename(l["file"]).startswith("stl_"):
                stl_loops.add("%s:%s" % (os.path.basename(l["file"]), l["line"]))       # libstdc++ range loops over fixed-size std::array
            elif os.path.basename(l["file"]) == "xsimd_scalar.hpp" and "ipow" in j["target"]:
                ipow_loops.add("%s:%s" % (os.path.basename(l["file"]), l["line"]))
            else:
                unknown_loops.append({"entry": j["target"], "header": l["header"], "where": "%s:%s" % (os.path.basename(l["file"]), l["line"])})
        for ni in r.get("not_inlined", []):
            recursion.append({"entry": j["target"], "callee": gen.Sig(fnmap[ni]["demangled"]).qual if ni in fnmap else ni})
    # loops inside contract-carrying callees (kept) are inventoried as their own targets below: every kept function reachable
    kept_reach = sorted(n for n in reach_all if n in fns)
    kj = [{"target": n, "out": os.path.join(wd, "k_%04d.c" % i)} for i, n in enumerate(kept_reach)]
    kres = pipeline.run_ll2c(bc, kj, wd, "c14k", keep_all=keep)
    for j, r in zip(kj, kres):
        if not r.get("ok"):
            continue
        for l in r.get("loops", []):
            if l["trip"] >= 0:
                const_loops += 1
            elif "/c++/" in l["file"] or os.path.basename(l["file"]).startswith("stl_"):
                stl_loops.add("%s:%s" % (os.path.basename(l["file"]), l["line"]))
            else:
                unknown_loops.append({"entry": fnmap[j["target"]]["demangled"][:120], "header": l["header"], "where": "%s:%s" % (os.path.basename(l["file"]), l["line"])})
    inv_ok = not unknown_loops
    rep.notes["loop_inventory"] = {"entries": len(roots), "constant_trip_loops": const_loops, "data_dependent_loop_functions": sorted(set(v[1] for v in loopfn.values())),
                                   "loops_without_bound": unknown_loops[:20], "calls_not_inlined": recursion[:20],
                                   "rem_pio2_loops_not_under_contract": sorted(rempio2_loops), "libstdcxx_fixed_size_range_loops": sorted(stl_loops),
                                   "scalar_ipow_loop_not_under_contract": sorted(ipow_loops)}
    inv_result = {"status": "proved" if inv_ok else "failed", "n_props": len(roots) + len(kept_reach), "mode": "concrete", "backend": "ll2c-loopinfo", "seconds": 0,
                  "failed": [] if inv_ok else [{"property": "loop_inventory.%d" % i, "description": "data-dependent loop without a termination contract at %s (entry %s)" % (u["where"], u["entry"]), "status": "FAILURE", "trace": None}
                                              for i, u in enumerate(unknown_loops[:10])],
                  "sample_props": ["loop inventory: %d entries, %d constant-trip loops, data-dependent loops only in %s" % (len(roots), const_loops, sorted(set(v[1] for v in loopfn.values())))]}
    S.add("loop inventory over the public math functions", "include/xsimd/arch/generic/xsimd_generic_math.hpp, xsimd_generic_trigo.hpp", inv_result)
    # ---- (ii) bounded iteration of the data-dependent loops, (iii) their argument ranges established at the call sites.
    # Uninstrumented harnesses (plain CBMC, everything inlined): the obligations are unwinding assertions / call-site assertions.
    tj = []
    # (ii-b) lgamma: loop contracts are enforced on the function with its straight-line tail cut (ll2c cut_after_loops) and the polynomial
    # kernels as opaque callees: lgamma<double>::other in both tiers, lgamma<float>::other in the thorough tier.  In addition the iteration
    # bound of lgamma<float>::other (both tiers) and lgamma<double>::other (thorough) is discharged as unwinding assertions of plain CBMC on the
    # fully inlined function -- complete for the claim "at most K iterations for every argument in the range", labelled as such
    for n in sorted(loopfn):
        if loopfn[n][1] in ("tgamma_other", "ipow") or os.environ.get("C14_NO_UNWIND"):
            continue
        if tier == "quick" and loopfn[n][1] != "lgamma_impl<float>::other":
            rep.bounded.append({"function": fnmap[n]["demangled"][:140], "status": "not run in the quick tier (query needs > 15 min); run in the thorough tier"})
            continue
        tj.append({"target": n, "out": os.path.join(wd, "L_%s.c" % sha(n)), "keep": []})
    # (ii) the loop-carrying functions: function contract (argument range) + loop contracts, callees replaced by their contracts (dfcc)
    # public math functions called after the loops (log, sin, floor, ...) carry no lane-wise contract: they are kept as opaque callees with
    # the trivial contract "returns some value, writes nothing but its result" -- their own termination is the inventory's business
    opaque = {n for n, f in fnmap.items() if f.get("defined") and n not in fns and n not in loopfn and
              (re.match(r"^xsimd::batch<[^()]*> xsimd::(%s)<" % "|".join(MATH_UNARY + MATH_BINARY), f["demangled"]) or
               # polynomial kernels evaluated after / between the loops (straight-line Horner schemes, dozens of fused multiply-adds)
               re.search(r"xsimd::kernel::detail::(gammaln\w+<[^()]*>|tgamma_kernel<.*>::compute)\(", f["demangled"]))}
    # (ipow keeps its scalar locals in memory -- no SROA -- so that the loop contract can name the source variable b)
    lj = [{"target": n, "out": os.path.join(wd, "W_%s.c" % sha(n)), "opts": {"loops_as_while": True, "sroa": loopfn[n][1] != "ipow", "cut_after_loops": loopfn[n][1].startswith("lgamma")}, "keep": sorted(opaque)} for n in sorted(loopfn)
          if loopfn[n][1] in ("tgamma_other", "ipow", "lgamma_impl<double>::other") or tier == "thorough" or os.environ.get("C14_LGAMMA_FLOAT_CONTRACTS")]
    lres = pipeline.run_ll2c(bc, lj, wd, "c14w", keep_all=keep)
    # the recursion lgamma<double> -> large_negative -> lgamma(|x|) is cut at the public lgamma (stubbed: its own obligations are separate)
    lg_api = [n for n, f in fnmap.items() if f.get("defined") and re.search(r"xsimd::batch<(float|double), [^>]+> xsimd::lgamma<", f["demangled"])]
    for n in sorted(callers):
        tj.append({"target": n, "out": os.path.join(wd, "C_%s.c" % sha(n)), "keep": list(loopfn.keys()) + [m for m in callers if m != n] + lg_api})
    tres = pipeline.run_ll2c(bc, tj, wd, "c14t")
    B = special.Batch()

    def pre_for(label, params, job, dem):
        """argument-range preconditions (per lane) under which the bounds hold"""
        out = []
        p0 = params[0]
        m = re.search(r"xsimd::batch<(float|double), (xsimd::[A-Za-z0-9_<>:]+?)>", dem)
        aid = None
        for k, v in ARCHS.items():
            if m and v[0] == m.group(2):
                aid = k
        if aid is None:
            raise Infra("cannot determine architecture of " + dem)
        tid = "f64" if m.group(1) == "double" else "f32"
        n = lanes(tid, aid)
        v = Val(p0["type"], p0["name"], job)
        for i in range(n):
            x = lane_f(v, tid, i)
            if label == "lgamma_impl<double>::other":
                out.append("!(%s < -34.0)" % x)
            elif label == "lgamma_impl<float>::other":
                out.append("!(%s < 0.0f)" % x)
            elif label == "tgamma_other":
                m2 = gen.Arg("M", tid, aid, Val(params[1]["type"], params[1]["name"], job))
                out.append("(%s || !(%s < %s))" % (m2.truth(i), x, "-33.0" if tid == "f64" else "-33.0f"))
                if i == 0:
                    out += m2.wf()
        return out

    from . import c14loops
    for j, r in zip(lj, lres):
        label = loopfn[j["target"]][1]
        if not r.get("ok"):
            rep.infra.append({"fn": label, "detail": "ll2c: " + str(r.get("error"))})
            continue
        dem = r["target"]["demangled"]
        m = re.search(r"xsimd::batch<(float|double), (xsimd::[A-Za-z0-9_<>:]+?)>", dem)
        aid = [k for k, v in ARCHS.items() if m and v[0] == m.group(2)]
        if label == "ipow":
            tid, aid = None, None
        elif not aid:
            rep.infra.append({"fn": label, "detail": "cannot determine architecture of " + dem})
            continue
        else:
            tid, aid = ("f64" if m.group(1) == "double" else "f32"), aid[0]
        try:
            ltxt, ghosts, bounds, nspec = c14loops.contracts(label, r, tid, aid)
            txt = ['#include "spec.h"\n', ltxt]
            replace = []
            for c in r["callees"]:
                cf = fns.get(c["name"])
                # the fused multiply-adds evaluate polynomials after the loops: their values do not matter for termination (and their
                # contract is a disjunction of rounding orders that costs an adder per candidate) -> trivial contract as well
                if (cf is None and c["name"] in opaque) or (cf is not None and cf.op in ("fma", "fms", "fnma", "fnms")):
                    sr = [p["name"] for p in c["params"] if p["sret"]]
                    txt.append("#define CONTRACT_%s __CPROVER_requires(1) __CPROVER_ensures(1) __CPROVER_assigns(%s)\n" % (c["name"], ", ".join("*" + x for x in sr)))
                    replace.append(c["name"])
                    continue
                if cf is None:
                    raise Infra("callee without contract or body: %s" % c["demangled"][:160])
                cctx = gen.bind(cf, c, r)
                cf.row.build(cctx)
                txt.append(gen.contract_text(cctx, c["name"]))
                replace.append(c["name"])
            ps = [p for p in r["target"]["params"] if not p["sret"]]
            req = pre_for(label, ps, r, dem) if label != "ipow" else []
        except (Infra, gen.Unsupported) as e:
            rep.infra.append({"fn": label, "detail": str(e)})
            continue
        sret = [p for p in r["target"]["params"] if p["sret"]]
        txt.append("#define CONTRACT_%s \\\n" % r["target"]["name"] + "".join("  __CPROVER_requires(%s) \\\n" % q for q in req) +
                   "  __CPROVER_ensures(1) \\\n  __CPROVER_assigns(%s)\n" % ", ".join(ghosts + ["*%s" % p["name"] for p in sret]))
        H = ["void harness(void) {", "  ll_use_libm();"]
        call = []
        from .sig import leaves
        for k, p in enumerate(r["target"]["params"]):
            if p["type"].endswith("*"):
                H.append("  %s O%d;" % (p["type"][:-1].strip(), k))
                call.append("&O%d" % k)
                if not p["sret"]:
                    for jx, (off, nb, lk, e) in enumerate(leaves(p["type"][:-1].strip(), "O%d" % k, r)):
                        H.append("  %s IN_%d_%d = %s;" % ({"u": "u%d" % (nb * 8), "f": "f%d" % (nb * 8), "p": "u64"}[lk], k, jx, e))
            else:
                H.append("  %s O%d;" % (p["type"], k))
                call.append("O%d" % k)
        H += ["  %s = 0;" % g for g in ghosts]
        H.append("  %s(%s);" % (r["target"]["name"], ", ".join(call)))
        H.append('  __CPROVER_assert(0, "canary: end of harness is reachable");')
        H.append("}")
        nloops = len(r.get("while_loops", []))
        title = "%s [%s] loop contracts" % (label, (dem.split("(")[0] if label != "ipow" else dem[dem.find("ipow<"):].split("(")[0])[-70:])
        note = ("%d loops, each with invariant + decreases + ghost iteration counter: iterations bounded by %s for every argument in the stated range; "
                "callees (%d) replaced by their contracts" % (nloops, bounds, len(replace)))
        if nloops != nspec:
            note += "; WARNING: %d loops in the function, %d loop contracts known" % (nloops, nspec)

        def done(rr, title=title, note=note, nloops=nloops, replace=replace):
            # a loop contract that was silently dropped shows as a missing invariant-step obligation
            S.add(title, "include/xsimd/arch/generic/xsimd_generic_math.hpp", rr, replaced=replace, note=note)
        B.add(done, wd, "W_" + sha(j["target"]), j["out"], "".join(txt), "\n".join(H) + "\n", r["target"]["name"], replace=replace, unwind=66,
              attempts=(("uf", "sat", 900 if tier == "quick" else 3000),), cbmc_flags=["--slice-formula"], loop_contracts=True)
    for j, r in zip(tj, tres):
        if not r.get("ok"):
            rep.infra.append({"fn": j["target"], "detail": "ll2c: " + str(r.get("error"))})
            continue
        name = r["target"]["name"]
        is_loopfn = j["target"] in loopfn
        label = loopfn[j["target"]][1] if is_loopfn else callers[j["target"]]
        bound = loopfn[j["target"]][0] if is_loopfn else 2
        stubs = []
        bad = None
        for c in r["callees"]:
            if c["name"] == r["target"]["name"]:
                continue   # direct recursion: the definition itself is present
            cparams = [p for p in c["params"] if not p["sret"]]
            ret = c["ret"]
            sig = "%s %s(%s)" % (ret, c["name"], ", ".join("%s %s" % (p["type"], p["name"]) for p in c["params"]))
            if c["name"] in loopfn:
                creq = pre_for(loopfn[c["name"]][1], cparams, r, c["demangled"])
                body = "".join('  __CPROVER_assert(%s, "call-site precondition of %s (argument range that bounds its loops)");\n' % (q, loopfn[c["name"]][1]) for q in creq)
            elif c["name"] in callers or c["name"] in lg_api:
                body = ""      # recursive use of the enclosing function: its own obligations are proved separately
            else:
                bad = c["demangled"]
                continue
            if ret != "void":
                body += "  %s rv; return rv;\n" % ret
            stubs.append("%s {\n%s}\n" % (sig, body))
        if bad:
            rep.infra.append({"fn": label, "detail": "callee neither inlined nor stubbed: " + bad[:200]})
            continue
        H = list(stubs) + ["void harness(void) {", "  ll_use_libm();"]
        call = []
        for k, p in enumerate(r["target"]["params"]):
            if p["type"].endswith("*"):
                H.append("  %s O%d;" % (p["type"][:-1].strip(), k))
                call.append("&O%d" % k)
            else:
                H.append("  %s O%d;" % (p["type"], k))
                call.append("O%d" % k)
        if is_loopfn:
            ps = [dict(p, name="(&O%d)" % k if p["type"].endswith("*") else "O%d" % k) for k, p in enumerate(r["target"]["params"]) if not p["sret"]]
            for q in pre_for(label, ps, r, r["target"]["demangled"]):
                H.append("  __CPROVER_assume(%s);" % q)
        from .sig import leaves
        for k, p in enumerate(r["target"]["params"]):
            if p["type"].endswith("*") and not p["sret"]:
                for jx, (off, nb, lk, e) in enumerate(leaves(p["type"][:-1].strip(), "O%d" % k, r)):
                    H.append("  %s IN_%d_%d = %s;" % ({"u": "u%d" % (nb * 8), "f": "f%d" % (nb * 8), "p": "u64"}[lk], k, jx, e))
        H.append("  %s(%s);" % (name, ", ".join(call)))
        H.append('  __CPROVER_assert(0, "canary: end of harness is reachable");')
        H.append("}")
        title = "%s [%s]" % (label, r["target"]["demangled"].split("(")[0][-70:])
        note = ("every loop of this function iterates at most %d times for every argument in the stated range (unwinding assertions of plain CBMC, all inputs; not a loop contract)" % max(66, bound)) if is_loopfn \
            else "establishes the argument range required by the loop-carrying callee (asserted at the call site)"
        B.add((lambda rr, title=title, note=note: S.add(title, "include/xsimd/arch/generic/xsimd_generic_math.hpp", rr, note=note)),
              wd, ("L_" if is_loopfn else "C_") + sha(j["target"]), j["out"], "", "\n".join(H) + "\n", name, unwind=max(66, bound + 1),
              attempts=(("concrete", "sat", 900 if tier == "quick" else 3000),), cbmc_flags=["--slice-formula"], plain=True)
    B.run()
    rep.notes["bounds"] = {l: b for _, b, l in LOOP_FUNCS}
    rep.notes["not_covered"] = ["rem_pio2 (scalar fallback for huge trigonometric arguments): loops bounded by table sizes, not under contract here",
                                "scalar ipow loop (xsimd_scalar.hpp:768): exponent halving, at most 64 iterations; batch pow(x, int) reaches it per lane"]
    rep.assumptions += ["loop contracts: polynomial kernels (gammaln*, tgamma_kernel::compute), the fused multiply-adds and the public math functions called around the loops "
                        "are opaque callees (trivial contract: some result, no side effect); their own termination is the loop inventory's claim",
                        "lgamma loop contracts are proved on the function with its straight-line tail cut (ll2c cut_after_loops): blocks from which no loop is reachable return at once",
                        "a failing loop obligation is reported without a replayed input (the verifier's loop-head state is not a function argument)",
                        "lgamma: iteration bounds are also discharged with --unwind K+1 --unwinding-assertions on the fully inlined function (complete for the claim '<= K iterations'; plain CBMC, not a loop contract)",
                        "functions proved on architectures %s (the code is the architecture-independent generic kernel)" % archs]
    return special.finish_special(rep, "C14")
