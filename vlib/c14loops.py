"""C14: loop contracts (invariant, decreases, assigns, ghost iteration counter) for the data-dependent loops of the gamma functions.
The loops are `while (any(test)) { ... select(test, step(x), x) ... }` recurrences over batches: termination is proved with a measure that is
the maximum over the lanes of the remaining step count of that lane (every active lane moves one step closer, inactive lanes contribute 0),
and the number of iterations is bounded by a ghost counter incremented at the head of every iteration (ghost + measure <= bound is invariant).
Invariants are stated over the source-level variables of the loop (C++ local names survive extraction: x, z, test1, p, u, nx, tx, ...)."""
from .common import TYPES, lanes, Infra
from .sig import Val
from . import gen


class LC:
    def __init__(self, job, tid, aid):
        self.job, self.tid, self.aid = job, tid, aid
        self.n = lanes(tid, aid) if tid else 0
        self.w = TYPES[tid][2] if tid else 0

    def loc(self, name):
        ln = "L_" + name
        if ln not in self.job["locals"]:
            raise Infra("loop contract refers to local variable '%s' which the function no longer has (renamed? update vlib/c14loops.py)" % name)
        return Val(self.job["locals"][ln], ln, self.job, pure=True)

    def par(self, name):
        for p in self.job["target"]["params"]:
            if p["name"] == "a_" + name:
                return Val(p["type"], p["name"], self.job, pure=True)
        raise Infra("loop contract refers to parameter '%s' which the function no longer has" % name)

    def mask(self, name):
        return gen.Arg("M", self.tid, self.aid, self.loc(name))

    def f(self, v, i):
        return v.flt(self.tid, i)

    def c(self, x):
        s = repr(float(x))
        return s + ("f" if self.tid == "f32" else "")

    def link(self, m, pred):
        """batch_bool variable m holds exactly pred(i) in lane i (and is well formed)"""
        return [m.is_true_iff(i, pred(i)) for i in range(self.n)] + (m.wf() if m.bkind == "kmask" else [])

    def isint(self, e, lo, hi):
        return "(%s >= %s && %s <= %s && %s == (f%d)(s32)%s)" % (e, self.c(lo), e, self.c(hi), e, self.w, e)

    def same(self, a, b):
        return "((%s) == (%s) || ((%s) != (%s) && (%s) != (%s)))" % (a, b, a, a, b, b)


def vmax(es):
    e = es[0]
    for k in es[1:]:
        e = "((%s) > (%s) ? (%s) : (%s))" % (e, k, e, k)
    return e


def tgamma_other(C):
    """x >= 3: x -= 1 (x < 180 after the clamp);  x < 0: x += 1 (x >= -33 by the caller's split);  x < 2: x += 1"""
    x, t1, t2 = C.loc("x"), C.mask("test1"), C.mask("test2")
    X = lambda i: C.f(x, i)
    R = range(C.n)
    lo33 = ["!(%s < %s)" % (X(i), C.c(-33)) for i in R]
    return [
        dict(inv=C.link(t1, lambda i: "%s >= %s" % (X(i), C.c(3))) + ["!(%s >= %s)" % (X(i), C.c(180)) for i in R] + lo33,
             measure=[("(%s >= %s ? (s32)%s : 0)" % (X(i), C.c(3), X(i))) for i in R], bound=179),
        dict(inv=C.link(t1, lambda i: "%s < %s" % (X(i), C.c(0))) + lo33,
             measure=[("(%s < %s ? (s32)(-%s) + 1 : 0)" % (X(i), C.c(0), X(i))) for i in R], bound=34),
        dict(inv=C.link(t2, lambda i: "%s < %s" % (X(i), C.c(2))) + ["!(%s < %s)" % (X(i), C.c(0)) for i in R],
             measure=[("(%s < %s ? (%s < %s ? 2 : 1) : 0)" % (X(i), C.c(2), X(i), C.c(1))) for i in R], bound=2),
    ]


def lgamma_double_other(C):
    """u = x + p with an integer p: p counts down from 0 while u >= 3 (x < 13), then up while u < 2 (x >= -34 by the caller's split)"""
    x, p, u, t1, t2 = C.loc("x"), C.loc("p"), C.loc("u"), C.mask("test1"), C.mask("test2")
    X, P, U = (lambda i: C.f(x, i)), (lambda i: C.f(p, i)), (lambda i: C.f(u, i))
    R = range(C.n)
    rel1 = lambda i: "((%s < %s) ? %s : (%s == %s && %s == %s))" % (X(i), C.c(13), C.same(U(i), "%s + %s" % (X(i), P(i))), U(i), C.c(0), P(i), C.c(0))
    # lanes with x >= 13 (or NaN) enter the second loop with u == 0 and leave it after one step (u = x + 1)
    rel2 = lambda i: "((%s < %s) ? %s : ((%s == %s && %s == %s) || (%s == %s && %s)))" % (
        X(i), C.c(13), C.same(U(i), "%s + %s" % (X(i), P(i))), U(i), C.c(0), P(i), C.c(0), P(i), C.c(1), C.same(U(i), "%s + %s" % (X(i), P(i))))
    lo = ["!(%s < %s)" % (X(i), C.c(-34)) for i in R]
    return [
        dict(inv=C.link(t1, lambda i: "%s >= %s" % (U(i), C.c(3))) + [C.isint(P(i), -10, 0) for i in R] + [rel1(i) for i in R] + lo,
             measure=[("(%s >= %s ? (s32)%s + 11 : 0)" % (U(i), C.c(3), P(i))) for i in R], bound=11, const=["x"]),
        dict(inv=C.link(t2, lambda i: "%s < %s" % (U(i), C.c(2))) + [C.isint(P(i), -10, 36) for i in R] + [rel2(i) for i in R] + lo,
             measure=[("(%s < %s ? 37 - (s32)%s : 0)" % (U(i), C.c(2), P(i))) for i in R], bound=47, const=["x"]),
    ]


def lgamma_float_other(C):
    """tx = x + nx with an integer nx: nx counts down from 0 while tx > 2.5 (x < 6.5), then up while tx < 1.5 on the lanes with 0 <= x < 0.75"""
    x, nx, tx = C.par("x"), C.loc("nx"), C.loc("tx")
    gt250, ge150, lt150, ge075 = C.mask("txgt250"), C.mask("xge150"), C.mask("txlt150"), C.mask("xge075")
    X, N, T = (lambda i: C.f(x, i)), (lambda i: C.f(nx, i)), (lambda i: C.f(tx, i))
    R = range(C.n)
    rel = lambda i: "((%s < %s) ? %s == %s + %s : (%s == %s && %s == %s))" % (X(i), C.c(6.5), T(i), X(i), N(i), T(i), C.c(0), N(i), C.c(0))
    nonneg = ["!(%s < %s)" % (X(i), C.c(0)) for i in R]
    return [
        dict(inv=C.link(gt250, lambda i: "%s > %s" % (T(i), C.c(2.5))) + C.link(ge150, lambda i: "%s >= %s" % (X(i), C.c(1.5))) +
             [C.isint(N(i), -4, 0) for i in R] + [rel(i) for i in R] + nonneg +
             ["(%s == %s || %s > %s)" % (N(i), C.c(0), X(i), C.c(2.5)) for i in R],
             measure=[("((%s > %s && %s >= %s) ? (s32)%s + 5 : 0)" % (T(i), C.c(2.5), X(i), C.c(1.5), N(i))) for i in R], bound=5),
        dict(inv=C.link(lt150, lambda i: "(%s < %s && !(%s >= %s))" % (T(i), C.c(1.5), X(i), C.c(0.75))) +
             C.link(ge075, lambda i: "%s >= %s" % (X(i), C.c(0.75))) + nonneg +
             ["(%s >= %s || (%s && (%s == %s + %s || %s != %s)))" % (X(i), C.c(0.75), C.isint(N(i), 0, 2), T(i), X(i), N(i), X(i), X(i)) for i in R],
             measure=[("((%s < %s && !(%s >= %s)) ? 3 - (s32)%s : 0)" % (T(i), C.c(1.5), X(i), C.c(0.75), N(i))) for i in R], bound=3),
    ]


def ipow(C):
    """square-and-multiply: the exponent b is halved (toward zero) in every iteration and the loop is left when it reaches 0"""
    ln = "L_b"
    if ln not in C.job["locals"]:
        raise Infra("loop contract refers to local variable 'b' which ipow no longer has")
    ct = C.job["locals"][ln]
    W = {"u8": 8, "u16": 16, "u32": 32, "u64": 64}.get(ct)
    if not W:
        raise Infra("ipow: exponent of unexpected type " + ct)
    m = __import__("re").search(r"ipow<.*, (unsigned )?(char|short|int|long|long long)>\(", C.job["target"]["demangled"])
    if not m:
        raise Infra("ipow: cannot read the exponent type from " + C.job["target"]["demangled"][:120])
    signed = not m.group(1)
    if signed:
        mag = "((s%d)L_b < 0 ? (u64)0 - (u64)(s64)(s%d)L_b : (u64)L_b)" % (W, W)
        top = "((u64)1 << %d)" % (W - 1)
    else:
        mag = "((u64)L_b)"
        top = "(u64)0x%xull" % ((1 << W) - 1)
    return [dict(inv=[], measure=None, raw_measure=mag, raw_inv=["ghost_it0 >= 0 && ghost_it0 <= %d" % (W - 1), "%s <= (%s >> ghost_it0)" % (mag, top)], bound=W)]


SPECS = {"ipow": ipow, "tgamma_other": tgamma_other, "lgamma_impl<double>::other": lgamma_double_other, "lgamma_impl<float>::other": lgamma_float_other}


def contracts(label, job, tid, aid):
    """-> (C text defining LOOP_CONTRACT_k / LOOP_BODY_HOOK_k and the ghost counters, list of ghost names, list of bounds)"""
    C = LC(job, tid, aid)
    specs = SPECS[label](C)
    wl = job.get("while_loops", [])
    ghosts = ["ghost_it%d" % k for k in range(len(wl))]
    txt = ["static s32 %s;\n" % ", ".join(ghosts)] if ghosts else []
    for k, L in enumerate(wl):
        if k >= len(specs):
            continue        # a loop without a contract stays a loop: its unwinding assertion is the failing obligation
        sp = specs[k]
        B = sp["bound"]
        if sp.get("raw_measure"):
            ms = sp["raw_measure"]
            inv = list(sp["inv"]) + list(sp["raw_inv"])
        else:
            ms = vmax(sp["measure"])
            inv = list(sp["inv"]) + ["ghost_it%d >= 0 && ghost_it%d <= %d && (%s) <= %d - ghost_it%d" % (k, k, B, ms, B, k)]
        # variables only passed by const reference inside the loop are not assigned (a wrong entry here fails the loop's assigns check)
        asg = [a for a in L["assigned"] if a not in ["L_" + c for c in sp.get("const", [])]]
        s = "#define LOOP_CONTRACT_%d \\\n  __CPROVER_assigns(%s) \\\n" % (k, ", ".join(asg + ["ghost_it%d" % k]))
        s += "".join("  __CPROVER_loop_invariant(%s) \\\n" % q for q in inv)
        s += "  __CPROVER_decreases(%s)\n" % ms
        s += "#define LOOP_BODY_HOOK_%d ghost_it%d++;\n" % (k, k)
        txt.append(s)
    return "".join(txt), ghosts, [sp["bound"] for sp in specs], len(specs)
