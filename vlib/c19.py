"""C19: compile-time constant batches denote the same lanes as their run-time counterparts.
The constants are computed by the C++ compiler; what exists at run time -- and is put under contract -- is as_batch(), as_batch_bool(), get(i),
mask().  Expected lanes are computed here from the value pack (never from the code).  The template-argument space is sampled (seeded)."""
import os, shutil, re, random
from .common import *
from . import check, special, pipeline, gen
from .sig import Val, split_top

OPS2 = [("+", lambda a, b, w: (a + b)), ("-", lambda a, b, w: (a - b)), ("*", lambda a, b, w: (a * b)), ("&", lambda a, b, w: a & b), ("|", lambda a, b, w: a | b),
        ("^", lambda a, b, w: a ^ b)]


def wrap(v, tid):
    w = TYPES[tid][2]
    v &= (1 << w) - 1
    if TYPES[tid][3] == "s" and v >> (w - 1):
        v -= 1 << w
    return v


def packs(n, tid, rnd, k):
    w = TYPES[tid][2]
    hi = min((1 << (w - 1)) - 1, 1000)
    out = [[1 if i == (n // 3) else 0 for i in range(n)], [0 if i == n - 1 else 3 for i in range(n)], list(range(n)), list(range(n - 1, -1, -1))]
    for _ in range(k):
        out.append([rnd.randint(0, hi) for _ in range(n)])
    return out


def cpp_pack(vals):
    return ", ".join(str(v) for v in vals)


def parse_class(cls):
    """'xsimd::batch_constant<int, xsimd::sse2, 1, 2, 3, 4>' -> (kind, T text, A text, [values])"""
    m = re.match(r"^xsimd::(batch_constant|batch_bool_constant)<(.*)>$", cls)
    if not m:
        return None
    parts = split_top(m.group(2))
    vals = []
    for x in parts[2:]:
        x = x.strip()
        if x in ("true", "false"):
            vals.append(1 if x == "true" else 0)
            continue
        mm = re.match(r"^(?:\([a-z ]+\))?(-?\d+)[ul]*$", x)
        if not mm:
            return None
        vals.append(int(mm.group(1)))
    return m.group(1), parts[0].strip(), parts[1].strip(), vals


def run(tier, seed):
    rep = check.Report("C19", tier, seed)
    wd = os.path.join(BUILD, "run_C19_%d" % os.getpid())
    shutil.rmtree(wd, ignore_errors=True)
    os.makedirs(wd)
    rep.wd = wd
    S = special.Simple(rep)
    rnd = random.Random(seed)
    archs = ["sse2", "avx2", "avx512f"] if tier == "quick" else ["sse2", "sse4_1", "avx", "avx2", "avx512f", "avx512bw"]
    types = ["i8", "u16", "i32", "u64"] if tier == "quick" else INT_TYPES
    nrand = 1 if tier == "quick" else 4
    tu = ["#include <xsimd/xsimd.hpp>", "#include <cstdint>"]
    expected = []   # (class kind, T demangled, A cpp, values) that must exist in the module
    k = 0
    for a in archs:
        A = ARCHS[a][0]
        for t in types:
            T = TYPES[t][0]
            n = lanes(t, a)
            ps = packs(n, t, rnd, nrand)
            for vals in ps:
                C = "xsimd::batch_constant<%s, %s, %s>" % (T, A, cpp_pack(vals))
                tu.append('extern "C" void e_c%d(xsimd::batch<%s, %s>* r, std::size_t i, %s* g) { %s c; *r = c.as_batch(); *g = c.get(i); }' % (k, T, A, T, C))
                expected.append(("batch_constant", t, a, [wrap(v, t) for v in vals]))
                k += 1
            # boolean constants
            for vals in ps[:2] + [[rnd.randint(0, 1) for _ in range(n)]]:
                bv = [1 if v else 0 for v in vals]
                C = "xsimd::batch_bool_constant<%s, %s, %s>" % (T, A, ", ".join("true" if b else "false" for b in bv))
                msk = "*m = c.mask();" if n <= 32 else "*m = 0;"
                tu.append('extern "C" void e_c%d(xsimd::batch_bool<%s, %s>* r, std::size_t i, bool* g, int* m) { %s c; *r = c.as_batch_bool(); *g = c.get(i); %s }' % (k, T, A, C, msk))
                expected.append(("batch_bool_constant", t, a, bv))
                k += 1
            # compile-time operators: the resulting constant type must carry the lane-wise scalar results
            v1, v2 = ps[2], ps[-1]
            for sym, f in OPS2:
                res = [wrap(f(x, y, TYPES[t][2]), t) for x, y in zip(v1, v2)]
                tu.append('extern "C" void e_c%d(xsimd::batch<%s, %s>* r) { *r = (xsimd::batch_constant<%s, %s, %s>{} %s xsimd::batch_constant<%s, %s, %s>{}).as_batch(); }'
                          % (k, T, A, T, A, cpp_pack(v1), sym, T, A, cpp_pack(v2)))
                expected.append(("batch_constant", t, a, res))
                k += 1
            res = [wrap(-x, t) for x in v1]
            tu.append('extern "C" void e_c%d(xsimd::batch<%s, %s>* r) { *r = (-xsimd::batch_constant<%s, %s, %s>{}).as_batch(); }' % (k, T, A, T, A, cpp_pack(v1)))
            expected.append(("batch_constant", t, a, res))
            k += 1
            res = [wrap(~x, t) for x in v1]
            tu.append('extern "C" void e_c%d(xsimd::batch<%s, %s>* r) { *r = (~xsimd::batch_constant<%s, %s, %s>{}).as_batch(); }' % (k, T, A, T, A, cpp_pack(v1)))
            expected.append(("batch_constant", t, a, res))
            k += 1
    bc, fnmap, tsec = pipeline.compile_tu(wd, "c19", "\n".join(tu) + "\n")
    fns = pipeline.discover(fnmap)
    keep = sorted(fns.keys())
    # ---- instantiations present in the module
    insts = {}
    for n, f in fnmap.items():
        if not f.get("defined"):
            continue
        s = gen.Sig(f["demangled"].replace("> >", ">>"))
        if not s.ok or s.base not in ("as_batch", "as_batch_bool", "get", "mask"):
            continue
        pc = parse_class(s.cls)
        if not pc:
            continue
        kind, Tt, At, vals = pc
        tid, aid = DEMANGLED_TO_TID.get(Tt), CPP_TO_AID.get(At)
        if tid is None or aid is None:
            continue
        if s.base == "get" and len(s.params) != 1:
            continue   # private helper get(i, array) is inlined
        insts[n] = (kind, tid, aid, [wrap(v, tid) if kind == "batch_constant" else v for v in vals], s.base)
    # ---- the compile-time operators (and the plain constants) must have produced exactly the expected packs
    have = set((k_, t_, a_, tuple(v_)) for (k_, t_, a_, v_, b_) in insts.values() if b_ in ("as_batch", "as_batch_bool"))
    missing = [e for e in expected if (e[0], e[1], e[2], tuple(e[3])) not in have]
    opres = {"status": "proved" if not missing else "failed", "n_props": len(expected), "mode": "concrete", "backend": "clang-instantiation", "seconds": 0,
             "failed": [{"property": "constant_pack.%d" % i, "description": "expected constant %s<%s, %s, %s> was not instantiated: the compile-time operator / conversion produced other values"
                         % (m[0], m[1], m[2], m[3][:8]), "status": "FAILURE", "trace": None} for i, m in enumerate(missing[:10])],
             "sample_props": ["%d expected constant types (plain, boolean, results of + - * & | ^ unary- ~) all present with the lane-wise scalar values" % len(expected)]}
    S.add("compile-time operators yield the constants of the lane-wise scalar operation", "include/xsimd/types/xsimd_batch_constant.hpp", opres)
    # ---- contracts on as_batch / as_batch_bool / get / mask
    names = sorted(insts)
    jobs = [{"target": n, "out": os.path.join(wd, "k%04d.c" % i)} for i, n in enumerate(names)]
    res = pipeline.run_ll2c(bc, jobs, wd, "c19", keep_all=keep)
    B = special.Batch()
    for j, r in zip(jobs, res):
        if not r.get("ok"):
            rep.infra.append({"fn": fnmap[j["target"]]["demangled"][:120], "detail": "ll2c: " + str(r.get("error"))})
            continue
        kind, tid, aid, vals, base = insts[j["target"]]
        name = r["target"]["name"]
        n = lanes(tid, aid)
        params = r["target"]["params"]
        sret = [p for p in params if p["sret"]]
        W = TYPES[tid][2]
        txt = ['#include "spec.h"\n']
        ens, req, asg = [], [], ""
        if base in ("as_batch", "as_batch_bool"):
            if sret:
                v = Val(sret[0]["type"], sret[0]["name"], r)
                asg = "*%s" % sret[0]["name"]
            else:
                v = Val(r["target"]["ret"], "__CPROVER_return_value", r)
            if base == "as_batch":
                ens = ["(%s == (u%d)%dull)" % (v.lane(tid, i), W, vals[i] & ((1 << W) - 1)) for i in range(n)]
            else:
                a = gen.Arg("M", tid, aid, v)
                ens = [a.is_true_iff(i, "1" if vals[i] else "0") for i in range(n)] + a.wf()
        elif base == "get":
            i = [p for p in params if not p["type"].endswith("*")][0]["name"]
            req = ["%s < %d" % (i, n)]
            sel = "0"
            for kx in range(n - 1, -1, -1):
                sel = "(%s == %d ? %dull : %s)" % (i, kx, vals[kx] & ((1 << W) - 1), sel)
            ens = ["((u%d)__CPROVER_return_value == (u%d)%s)" % (W if kind == "batch_constant" else 8, W if kind == "batch_constant" else 8, sel)]
        else:  # mask
            if n > 32:
                continue
            ens = ["((u32)__CPROVER_return_value == %du)" % sum((1 << kx) for kx in range(n) if vals[kx])]
        chunks = [" && ".join(ens[q:q + 8]) for q in range(0, len(ens), 8)]
        txt.append("#define CONTRACT_%s \\\n" % name + "".join("  __CPROVER_requires(%s) \\\n" % q for q in req) + "".join("  __CPROVER_ensures(%s) \\\n" % e for e in chunks) +
                   "  __CPROVER_assigns(%s)\n" % asg)
        replace = []
        bad = False
        for c in r["callees"]:
            cf = fns.get(c["name"])
            if cf is None:
                bad = True
                break
            cctx = gen.bind(cf, c, r)
            cf.row.build(cctx)
            txt.append(gen.contract_text(cctx, c["name"]))
            replace.append(c["name"])
        if bad:
            rep.infra.append({"fn": fnmap[j["target"]]["demangled"][:120], "detail": "callee without contract"})
            continue
        H = ["void harness(void) {"]
        call = []
        for kx, p in enumerate(params):
            if p["type"].endswith("*"):
                H.append("  %s O%d;" % (p["type"][:-1].strip(), kx))
                call.append("&O%d" % kx)
            else:
                H.append("  %s O%d;" % (p["type"], kx))
                call.append("O%d" % kx)
        H.append("  %s(%s);" % (name, ", ".join(call)))
        H.append('  __CPROVER_assert(0, "canary: end of harness is reachable");\n}')
        title = "%s<%s, %s, %s%s>::%s" % (kind, tid, aid, ",".join(str(v) for v in vals[:6]), ",..." if len(vals) > 6 else "", base)
        B.add((lambda rr, title=title, replace=replace: S.add(title, "include/xsimd/types/xsimd_batch_constant.hpp", rr, replaced=[x[-40:] for x in replace])),
              wd, "k%04d" % jobs.index(j), j["out"], "".join(txt), "\n".join(H) + "\n", name, replace=replace, attempts=(("concrete", "sat", 200), ("concrete", "cadical", 400)))
    B.run()
    # ---- APIs taking a constant: select(batch_bool_constant, a, b) at kernel and API level against the run-time select of the converted mask
    stu = ["#include <xsimd/xsimd.hpp>", "#include <cstdint>"]
    sroots = []
    sk = 0
    for a in (archs if tier == "quick" else [x for x in X86_ARCHS if ARCHS[x][3]]):
        A = ARCHS[a][0]
        for t in (["i8", "u16", "i32", "f64"] if tier == "quick" else ALL_TYPES):
            T = TYPES[t][0]
            n = lanes(t, a)
            pats = [[i == n - 3 for i in range(n)], [i != 1 for i in range(n)], [i < n // 2 for i in range(n)], [rnd.randint(0, 1) == 1 for _ in range(n)]]
            for pat in pats[: (3 if tier == "quick" else 4)]:
                C = "xsimd::batch_bool_constant<%s, %s, %s>" % (T, A, ", ".join("true" if b_ else "false" for b_ in pat))
                stu.append('extern "C" void e_s%d(xsimd::batch<%s, %s>* r, xsimd::batch<%s, %s> const* a, xsimd::batch<%s, %s> const* b) { *r = xsimd::select(%s{}, *a, *b); }'
                           % (sk, T, A, T, A, T, A, C))
                sroots.append("e_s%d" % sk)
                sk += 1
    from . import table
    rep2 = check.run_groups("C19", {"constsel": ("\n".join(stu) + "\n", sroots)}, tier, seed, props_filter=lambda fn: table.prop_of(fn) == "C19")
    from . import replay as _replay

    def native(t):
        def run(f, vals, rdir):
            # the verifier's counterexample replayed on the real headers (same driver / checker as the lane-wise properties)
            _replay.make_replay("C19", t, f, rdir)
            res, out = _replay.run_replay(rdir)
            if res is None:
                return {"error": str(out)[-400:]}
            return {"reproduced": res.get("pre") == 1 and res.get("post") == 0, "output": str(out)[-400:], "result": res}
        return run
    for t in rep2.targets:
        S.add(t["dem"], "%s:%s" % (t["file"], t["line"]), {"status": t["status"], "n_props": t["n_props"], "mode": t["mode"], "backend": t["backend"], "seconds": t["seconds"],
                                                         "detail": t["detail"], "failed": t["failed"], "stem": t["stem"], "sample_props": []}, replaced=t["replaced"])
        if t["status"] == "failed":
            rep.targets[-1]["native_replay"] = native(t)
    rep.infra += rep2.infra
    rep.extra_wd = rep2.wd
    rep.notes["exhaustive"] = False
    rep.notes["program_space"] = {"architectures": archs, "element_types": types, "constant_instantiations": len(insts), "expected_packs": len(expected), "seed": seed,
                                  "families": "one-hot, all-but-one, iota, reversed iota, seeded random; boolean one-hot / all-but-one / random; + - * & | ^ unary- ~ at type level"}
    rep.assumptions += ["the template-argument (program) space is sampled, not enumerated: evidence gives the counts",
                        "constant-taking swizzle/shuffle/insert/slide/rotate kernels are proved against the pack-indexed map in C05; select(batch_bool_constant) kernels and API against the constant mask (sampled patterns)"]
    rc = special.finish_special(rep, "C19")
    shutil.rmtree(getattr(rep, "extra_wd", "") or "/nonexistent", ignore_errors=True)
    return rc
