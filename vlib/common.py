"""Shared constants and helpers for the xsimd contract-verification framework."""
import os, sys, json, subprocess, hashlib, time, shutil

VERIF = os.path.dirname(os.path.dirname(os.path.abspath(__file__)))
REPO = os.environ.get("XSIMD_REPO", "/repo")
BUILD = os.path.join(VERIF, "build")
BIN = os.path.join(BUILD, "bin")
LL2C = os.path.join(BIN, "ll2c")
EVIDENCE = os.environ.get("VERIF_EVIDENCE_DIR") or os.path.join(VERIF, "evidence")   # the override is used by tools/run_seeded.py only

MFLAGS = ("-msse2 -msse3 -mssse3 -msse4.1 -msse4.2 -mavx -mavx2 -mfma -mfma4 -mavxvnni -mavx512f -mavx512cd "
          "-mavx512dq -mavx512bw -mavx512er -mavx512pf -mavx512ifma -mavx512vbmi -mavx512vbmi2 -mavx512vnni").split()

# element types: id -> (C++ spelling, demangled spelling, bits, kind)
TYPES = {
    "i8": ("int8_t", "signed char", 8, "s"), "u8": ("uint8_t", "unsigned char", 8, "u"),
    "i16": ("int16_t", "short", 16, "s"), "u16": ("uint16_t", "unsigned short", 16, "u"),
    "i32": ("int32_t", "int", 32, "s"), "u32": ("uint32_t", "unsigned int", 32, "u"),
    "i64": ("int64_t", "long", 64, "s"), "u64": ("uint64_t", "unsigned long", 64, "u"),
    "f32": ("float", "float", 32, "f"), "f64": ("double", "double", 64, "f"),
}
DEMANGLED_TO_TID = {v[1]: k for k, v in TYPES.items()}
DEMANGLED_TO_TID.update({"char": "i8", "long long": "i64", "unsigned long long": "u64", "bool": "u8"})
# dependent names clang leaves unresolved in demangled signatures (frexp / ldexp take batch<as_integer_t<T>, A>)
DEMANGLED_TO_TID.update({"xsimd::as_integer<float>::type": "i32", "xsimd::as_integer<double>::type": "i64"})
INT_TYPES = ["i8", "u8", "i16", "u16", "i32", "u32", "i64", "u64"]
FLOAT_TYPES = ["f32", "f64"]
ALL_TYPES = INT_TYPES + FLOAT_TYPES

# architectures: id -> (C++ spelling, register bits, bool kind, host-executable)
ARCHS = {
    "sse2": ("xsimd::sse2", 128, "vec", True), "sse3": ("xsimd::sse3", 128, "vec", True),
    "ssse3": ("xsimd::ssse3", 128, "vec", True), "sse4_1": ("xsimd::sse4_1", 128, "vec", True),
    "sse4_2": ("xsimd::sse4_2", 128, "vec", True), "fma3_sse": ("xsimd::fma3<xsimd::sse4_2>", 128, "vec", True),
    "fma4": ("xsimd::fma4", 128, "vec", False),
    "avx": ("xsimd::avx", 256, "vec", True), "fma3_avx": ("xsimd::fma3<xsimd::avx>", 256, "vec", True),
    "avx2": ("xsimd::avx2", 256, "vec", True), "avxvnni": ("xsimd::avxvnni", 256, "vec", True),
    "fma3_avx2": ("xsimd::fma3<xsimd::avx2>", 256, "vec", True),
    "avx512f": ("xsimd::avx512f", 512, "kmask", True), "avx512cd": ("xsimd::avx512cd", 512, "kmask", True),
    "avx512dq": ("xsimd::avx512dq", 512, "kmask", True), "avx512bw": ("xsimd::avx512bw", 512, "kmask", True),
    "avx512er": ("xsimd::avx512er", 512, "kmask", False), "avx512pf": ("xsimd::avx512pf", 512, "kmask", False),
    "avx512ifma": ("xsimd::avx512ifma", 512, "kmask", True), "avx512vbmi": ("xsimd::avx512vbmi", 512, "kmask", True),
    "avx512vbmi2": ("xsimd::avx512vbmi2", 512, "kmask", True),
    "avx512vnni_bw": ("xsimd::avx512vnni<xsimd::avx512bw>", 512, "kmask", True),
    "avx512vnni_vbmi2": ("xsimd::avx512vnni<xsimd::avx512vbmi2>", 512, "kmask", True),
    "emu128": ("xsimd::emulated<128>", 128, "boolarr", True), "emu256": ("xsimd::emulated<256>", 256, "boolarr", True),
}
CPP_TO_AID = {v[0]: k for k, v in ARCHS.items()}
CPP_TO_AID.update({"xsimd::emulated<128ul>": "emu128", "xsimd::emulated<256ul>": "emu256"})
# the architectures whose header files define kernels of their own (quick tier)
DEFINING_ARCHS = ["sse2", "sse3", "ssse3", "sse4_1", "sse4_2", "avx", "avx2", "fma3_sse", "fma3_avx", "fma3_avx2", "fma4",
                  "avx512f", "avx512dq", "avx512bw", "avx512vbmi", "avx512vbmi2", "emu128"]
X86_ARCHS = [a for a in ARCHS if not a.startswith("emu")]


def lanes(tid, aid):
    return ARCHS[aid][1] // TYPES[tid][2]


def sh(cmd, **kw):
    return subprocess.run(cmd, stdout=subprocess.PIPE, stderr=subprocess.STDOUT, universal_newlines=True, **kw)


def sha(s):
    return hashlib.sha256(s.encode() if isinstance(s, str) else s).hexdigest()[:16]


def log(*a):
    print(*a, file=sys.stderr, flush=True)


class Infra(Exception):
    """Infrastructure problem: the check cannot decide (exit 2), never a violation."""
