"""C15: CPU feature detection over a symbolic CPUID/XCR0 state, and dispatch."""
import os, json, shutil
from .common import *
from . import check, special, pipeline

# field -> (kind, [own CPUID bits as C expressions over the ghost state])
B1C = lambda b: "((ghost_cpuid_1[2] >> %d) & 1)" % b
B1D = lambda b: "((ghost_cpuid_1[3] >> %d) & 1)" % b
B7B = lambda b: "((ghost_cpuid_7_0[1] >> %d) & 1)" % b
B7C = lambda b: "((ghost_cpuid_7_0[2] >> %d) & 1)" % b
FIELDS = [
    ("sse2", "sse", [B1D(26)]), ("sse3", "sse", [B1C(0)]), ("ssse3", "sse", [B1C(9)]), ("sse4_1", "sse", [B1C(19)]), ("sse4_2", "sse", [B1C(20)]),
    ("fma3_sse42", "vex", [B1C(12)]), ("fma4", "vex", ["((ghost_cpuid_80000001[2] >> 16) & 1)"]), ("avx", "vex", [B1C(28)]),
    ("fma3_avx", "vex", [B1C(28), B1C(12)]), ("avx2", "vex", [B7B(5)]), ("avxvnni", "vex", ["((ghost_cpuid_7_1[0] >> 4) & 1)"]),
    ("fma3_avx2", "vex", [B7B(5), B1C(12)]),
    ("avx512f", "evex", [B7B(16)]), ("avx512cd", "evex", [B7B(28)]), ("avx512dq", "evex", [B7B(17)]), ("avx512bw", "evex", [B7B(30)]),
    ("avx512er", "evex", [B7B(27)]), ("avx512pf", "evex", [B7B(26)]), ("avx512ifma", "evex", [B7B(21)]), ("avx512vbmi", "evex", [B7C(1)]),
    ("avx512vbmi2", "evex", [B7C(6)]), ("avx512vnni_bw", "evex", [B7C(11)]), ("avx512vnni_vbmi2", "evex", [B7C(11), B7C(6)]),
]
OS = {
    "sse": "(!GHOST_OSXSAVE || GHOST_XCR0(1))",
    "vex": "(GHOST_OSXSAVE && GHOST_XCR0(1) && GHOST_XCR0(2))",
    "evex": "(GHOST_OSXSAVE && GHOST_XCR0(1) && GHOST_XCR0(2) && GHOST_XCR0(5) && GHOST_XCR0(6) && GHOST_XCR0(7))",
}
# hardware consistency of XCR0 as the statement gives it
HW = ["(!GHOST_XCR0(2) || GHOST_XCR0(1))",
      "(GHOST_XCR0(5) == GHOST_XCR0(6) && GHOST_XCR0(6) == GHOST_XCR0(7))",
      "(!GHOST_XCR0(5) || GHOST_XCR0(2))"]
# extension chain (child, parent): availability of the child implies availability of the parent when the feature bits are closed
CHAIN = [("sse3", "sse2"), ("ssse3", "sse3"), ("sse4_1", "ssse3"), ("sse4_2", "sse4_1"), ("avx", "sse4_2"), ("avx2", "avx"), ("avx512f", "avx2"),
         ("avx512cd", "avx512f"), ("avx512dq", "avx512cd"), ("avx512bw", "avx512dq"), ("fma3_sse42", "sse4_2"), ("fma3_avx", "avx"),
         ("fma3_avx2", "avx2"), ("avx512ifma", "avx512bw"), ("avx512vbmi", "avx512ifma"), ("avx512vbmi2", "avx512vbmi"),
         ("avx512vnni_bw", "avx512bw"), ("avx512vnni_vbmi2", "avx512vbmi2"), ("avxvnni", "avx2"), ("fma4", "avx")]
OWN = {f: bits for f, k, bits in FIELDS}


def field_expr(obj, idx, f):
    return "%s.f%d" % (obj, idx[f])


def inv(obj, idx):
    """availability implications for one supported_arch object (C expression list)"""
    out = []
    for f, kind, bits in FIELDS:
        out.append("(!%s || (%s && %s))" % (field_expr(obj, idx, f), " && ".join(bits), OS[kind]))
    closed = " && ".join("(!(%s) || (%s))" % (" && ".join(OWN[c]), " && ".join(OWN[p])) for c, p in CHAIN)
    mono = " && ".join("(!%s || %s)" % (field_expr(obj, idx, c), field_expr(obj, idx, p)) for c, p in CHAIN)
    out.append("(!(%s) || (%s))" % (closed, mono))
    return out


TU = '''#include <xsimd/xsimd.hpp>
extern "C" { int ghost_calls; int ghost_tag; int ghost_arg; }
template <class A> struct arch_id;
%(ids)s
struct probe {
    template <class A> int operator()(A, int x) const noexcept { ghost_calls = ghost_calls + 1; ghost_tag = arch_id<A>::value; ghost_arg = x; return x + 7 * arch_id<A>::value; }
};
extern "C" void e_ctor(xsimd::detail::supported_arch* p) { new (p) xsimd::detail::supported_arch(); }
extern "C" unsigned e_avail(xsimd::detail::supported_arch* out) { *out = xsimd::available_architectures(); return out->sse2; }
%(dispatch)s
%(order)s
'''
ARCH_CPP = {"sse2": "xsimd::sse2", "sse3": "xsimd::sse3", "ssse3": "xsimd::ssse3", "sse4_1": "xsimd::sse4_1", "sse4_2": "xsimd::sse4_2",
            "fma3_sse42": "xsimd::fma3<xsimd::sse4_2>", "fma4": "xsimd::fma4", "avx": "xsimd::avx", "fma3_avx": "xsimd::fma3<xsimd::avx>",
            "avx2": "xsimd::avx2", "avxvnni": "xsimd::avxvnni", "fma3_avx2": "xsimd::fma3<xsimd::avx2>", "avx512f": "xsimd::avx512f",
            "avx512cd": "xsimd::avx512cd", "avx512dq": "xsimd::avx512dq", "avx512bw": "xsimd::avx512bw", "avx512er": "xsimd::avx512er",
            "avx512pf": "xsimd::avx512pf", "avx512ifma": "xsimd::avx512ifma", "avx512vbmi": "xsimd::avx512vbmi", "avx512vbmi2": "xsimd::avx512vbmi2",
            "avx512vnni_bw": "xsimd::avx512vnni<xsimd::avx512bw>", "avx512vnni_vbmi2": "xsimd::avx512vnni<xsimd::avx512vbmi2>"}
# best-first order of the default list (checked against the real list by C20's position facts)
DEFAULT_ORDER = ["avx512vnni_vbmi2", "avx512vbmi2", "avx512vbmi", "avx512ifma", "avx512pf", "avx512vnni_bw", "avx512bw", "avx512er", "avx512dq",
                 "avx512cd", "avx512f", "avxvnni", "fma3_avx2", "avx2", "fma3_avx", "avx", "fma4", "fma3_sse42", "sse4_2", "sse4_1", "ssse3", "sse3", "sse2"]


def run(tier, seed):
    import random
    rep = check.Report("C15", tier, seed)
    wd = os.path.join(BUILD, "run_C15_%d" % os.getpid())
    shutil.rmtree(wd, ignore_errors=True)
    os.makedirs(wd)
    rep.wd = wd
    S = special.Simple(rep)
    names = [f for f, _, _ in FIELDS]
    off = special.native_offsets(wd, "xsimd::detail::supported_arch", names)
    idx = {f: off[f] // 4 for f in names}   # all fields are 'unsigned'
    nfields = off["sizeof"] // 4
    # dispatch lists: the full default list, every suffix (quick: a few), seeded sub-lists
    rnd = random.Random(seed)
    lists = [list(DEFAULT_ORDER)]
    suffixes = [DEFAULT_ORDER[i:] for i in range(1, len(DEFAULT_ORDER))]
    lists += suffixes if tier == "thorough" else [suffixes[i] for i in (0, 10, 15, 21)]
    for _ in range(12 if tier == "thorough" else 3):
        k = rnd.randint(2, 8)
        sub = sorted(rnd.sample(range(len(DEFAULT_ORDER)), k))
        lists.append([DEFAULT_ORDER[i] for i in sub])
    ids = "\n".join("template <> struct arch_id<%s> { static constexpr int value = %d; };" % (ARCH_CPP[a], i + 1) for i, a in enumerate(DEFAULT_ORDER))
    disp = []
    for n, l in enumerate(lists):
        al = "xsimd::arch_list<%s>" % ", ".join(ARCH_CPP[a] for a in l)
        disp.append('extern "C" int e_dispatch_%d(int x) { auto d = xsimd::dispatch<%s>(probe{}); return d(x); }' % (n, al))
    from . import c20
    tu = TU % {"ids": ids, "dispatch": "\n".join(disp), "order": "#include <type_traits>\n" + "\n".join(c20.order_tu_lines())}
    bc, fnmap, tsec = pipeline.compile_tu(wd, "c15", tu)
    ctor = "_ZN5xsimd6detail14supported_archC2Ev"
    avail = "_ZN5xsimd23available_architecturesEv"
    if ctor not in fnmap or avail not in fnmap:
        raise Infra("supported_arch constructor / available_architectures not found in module (renamed?)")
    ops = [n for n, f in fnmap.items() if f.get("defined") and "xsimd::detail::dispatcher<probe, xsimd::arch_list<" in f["demangled"] and "::operator()" in f["demangled"]]
    jobs = [{"target": ctor, "out": os.path.join(wd, "ctor.c")}, {"target": avail, "out": os.path.join(wd, "avail.c"), "keep": [ctor]}]
    for i, n in enumerate(sorted(ops)):
        jobs.append({"target": n, "out": os.path.join(wd, "disp_%d.c" % i), "keep": [avail]})
    order_targets = ["geom_row_%d" % i for i in range(len(c20.ORDER))] + ["geom_lists"]
    for t in order_targets:
        jobs.append({"target": t, "out": os.path.join(wd, t + ".c")})
    res = pipeline.run_ll2c(bc, jobs, wd, "c15")
    for j, r in zip(jobs, res):
        if not r.get("ok"):
            raise Infra("ll2c: %s: %s" % (j["target"], r.get("error")))
    stype = res[0]["target"]["params"][0]["type"][:-1].strip()
    hdr = '#include "ll2c_cpu.h"\n'
    hw = " && ".join(HW)
    # ---- (a) constructor
    ctor_contract = hdr + "#define CONTRACT_%s \\\n  __CPROVER_requires(%s) \\\n" % (ctor, hw) + \
        "".join("  __CPROVER_ensures(%s) \\\n" % e for e in inv("(*a_this)", idx)) + "  __CPROVER_assigns(*a_this)\n"
    harness = "void harness(void) { %s O; %s(&O); __CPROVER_assert(0, \"canary: end of harness is reachable\"); }\n" % (stype, ctor)
    CPU = ["-DNEED_ll_asm_cpuid=1", "-DNEED_ll_asm_xgetbv=1"]
    r = special.verify(wd, "ctor", jobs[0]["out"], ctor_contract, harness, ctor, attempts=(("concrete", "sat", 300), ("concrete", "cadical", 600)), defs=CPU)
    S.add("xsimd::detail::supported_arch::supported_arch()", "include/xsimd/config/xsimd_cpuid.hpp", r,
          note="symbolic CPUID leaves 1, 7.0, 7.1, 0x80000001 and XCR0: all configurations at once")
    rep.targets[-1]["native_replay"] = lambda f, vals, rdir: native_ctor_replay(vals, rdir, idx)
    # ---- (b) available_architectures(): the function-local static satisfies the invariant once initialised
    aj = res[1]
    statics = [l for l in open(jobs[1]["out"]).read().splitlines() if l.startswith("static ")]
    sobj = gobj = None
    for l in statics:
        m = l.split()
        nm = m[-1].rstrip(";").split("=")[0].strip() if "=" not in l else l.split("=")[0].split()[-1]
        if "_ZGV" in nm:
            gobj = nm
        elif "supported" in nm:
            sobj = nm
    if not sobj or not gobj:
        raise Infra("function-local static of available_architectures not found in lowered code")
    sret = aj["target"]["params"][0]["name"]
    guard_set = "(*(u8*)&%s != 0)" % gobj
    eqs = " && ".join("(*%s).f%d == %s.f%d" % (sret, k, sobj, k) for k in range(nfields))
    ctor_as_callee = "#define CONTRACT_%s \\\n  __CPROVER_requires(%s) \\\n" % (ctor, hw) + \
        "".join("  __CPROVER_ensures(%s) \\\n" % e for e in inv("(*this)", idx)) + "  __CPROVER_assigns(*this)\n"
    guards = ("u32 __cxa_guard_acquire(u64 *g) { return *(u8 *)g ? 0 : 1; }\nvoid __cxa_guard_release(u64 *g) { *(u8 *)g = 1; }\n")
    avail_contract = hdr + ctor_as_callee + \
        "#define CONTRACT_%s \\\n  __CPROVER_requires(%s) \\\n  __CPROVER_requires(!%s || (%s)) \\\n" % (avail, hw, guard_set, " && ".join(inv(sobj, idx))) + \
        "".join("  __CPROVER_ensures(%s) \\\n" % e for e in inv("(*%s)" % sret, idx)) + \
        "  __CPROVER_ensures(%s && (%s) && (%s)) \\\n" % (guard_set, eqs, " && ".join(inv(sobj, idx))) + \
        "  __CPROVER_assigns(*%s, %s, %s)\n" % (sret, sobj, gobj)
    harness = guards + "void harness(void) { %s O; %s(&O); __CPROVER_assert(0, \"canary: end of harness is reachable\"); }\n" % (stype, avail)
    r = special.verify(wd, "avail", jobs[1]["out"], avail_contract, harness, avail, replace=[ctor], attempts=(("concrete", "sat", 300), ("concrete", "cadical", 600)), defs=CPU)
    S.add("xsimd::available_architectures()", "include/xsimd/config/xsimd_cpuid.hpp", r, replaced=["supported_arch::supported_arch()"],
          note="invariant of the function-local static (set only by the constructor; __cxa_guard modelled single-threaded)")
    B = special.Batch()
    # ---- (c) dispatch: operator() of dispatcher<probe, arch_list<...>> with walk_archs inlined
    for i, n in enumerate(sorted(ops)):
        dj = res[2 + i]
        dem = fnmap[n]["demangled"]
        inner = dem[dem.index("arch_list<") + 10:]
        # recover the list of this instantiation from its demangled name
        order = []
        depth, cur = 0, ""
        for ch in inner:
            if ch == "<":
                depth += 1
            if ch == ">":
                if depth == 0:
                    break
                depth -= 1
            if ch == "," and depth == 0:
                order.append(cur.strip())
                cur = ""
            else:
                cur += ch
        order.append(cur.strip())
        rev = {v: k for k, v in ARCH_CPP.items()}
        try:
            lst = [rev[o] for o in order]
        except KeyError as e:
            raise Infra("unknown architecture in dispatch list: %s" % e)
        this = dj["target"]["params"][0]["name"]
        dstruct = dj["target"]["params"][0]["type"][:-1].strip()
        xarg = dj["target"]["params"][1]["name"]
        av = "(*%s).f0" % this          # const supported_arch availables_archs is the first member
        anyav = " || ".join("%s.f%d" % (av, idx[a]) for a in lst)
        first = "0"
        for a in reversed(lst):
            first = "(%s.f%d ? %d : %s)" % (av, idx[a], DEFAULT_ORDER.index(a) + 1, first)
        same = " && ".join("%s.f%d == %s.f%d" % (av, k, sobj, k) for k in range(nfields))
        avail_callee = "#define CONTRACT_%s \\\n  __CPROVER_requires(%s) \\\n  __CPROVER_ensures(%s) \\\n  __CPROVER_assigns(*%s)\n" % (
            avail, guard_set, " && ".join("(*%s).f%d == %s.f%d" % ("agg_result", k, sobj, k) for k in range(nfields)), "agg_result")
        xval = "(*%s)" % xarg if dj["target"]["params"][1]["type"].endswith("*") else xarg
        ghost_static = "static %s %s;\nstatic u64 %s;\n" % (stype, sobj, gobj)   # abstract view of the function-local static
        contract = hdr + ghost_static + avail_callee + \
            "#define CONTRACT_%s \\\n  __CPROVER_requires(%s) \\\n  __CPROVER_requires(%s && (%s)) \\\n  __CPROVER_requires(v_ghost_calls >= 0 && v_ghost_calls < 1000) \\\n" % (n, anyav, guard_set, same) + \
            "  __CPROVER_ensures(v_ghost_calls == __CPROVER_old(v_ghost_calls) + 1) \\\n" + \
            "  __CPROVER_ensures(v_ghost_tag == %s) \\\n" % first + \
            "  __CPROVER_ensures(v_ghost_arg == __CPROVER_old(%s)) \\\n" % xval + \
            "  __CPROVER_ensures(__CPROVER_return_value == (u32)(__CPROVER_old(%s) + 7 * %s)) \\\n" % (xval, first) + \
            "  __CPROVER_assigns(v_ghost_calls, v_ghost_tag, v_ghost_arg)\n"
        arg_decl = "u32 X; " if dj["target"]["params"][1]["type"].endswith("*") else "u32 X; "
        call_x = "&X" if dj["target"]["params"][1]["type"].endswith("*") else "X"
        harness = "void harness(void) { %s D; %s%s(&D, %s); __CPROVER_assert(0, \"canary: end of harness is reachable\"); }\n" % (dstruct, arg_decl, n, call_x)
        # the lowered C must see the ghost globals as the same objects: they are extern "C" globals of the TU
        B.add((lambda r, lst=lst: S.add("dispatcher<probe, arch_list<%s>>::operator()" % ", ".join(lst), "include/xsimd/config/xsimd_arch.hpp", r,
                                        replaced=["available_architectures()"],
                                        note="walk_archs recursion inlined; exactly-once, first available member, argument forwarded, result returned")),
              wd, "disp_%d" % i, jobs[2 + i]["out"], contract, harness, n, replace=[avail] if any(c["name"] == avail for c in dj["callees"]) else [],
              attempts=(("concrete", "sat", 300), ("concrete", "cadical", 600)), defs=CPU)
    # ---- (d) "the default list is ordered best-first with best_arch at its head": closed facts over the real lists (shared with C20)
    for t in order_targets:
        k = [j["target"] for j in jobs].index(t)
        r = res[k]
        P, ST = r["target"]["params"][0]["name"], r["target"]["params"][0]["type"][:-1].strip()
        ens, title = c20.order_contract(t, P)
        chunks = [" && ".join(ens[q:q + 12]) for q in range(0, len(ens), 12)]
        c = "#define CONTRACT_%s \\\n" % t + "".join("  __CPROVER_ensures(%s) \\\n" % e for e in chunks) + "  __CPROVER_assigns(*%s)\n" % P
        h = "void harness(void) { %s O; %s(&O); __CPROVER_assert(0, \"canary: end of harness is reachable\"); }\n" % (ST, t)
        B.add((lambda rr, title=title: S.add(title, "include/xsimd/config/xsimd_arch.hpp", rr)), wd, t, jobs[k]["out"], c, h, t, attempts=(("concrete", "sat", 300),))
    B.run()
    rep.notes["dispatch_lists"] = len(lists)
    rep.notes["configuration_space"] = "all values of CPUID.1, CPUID.7.0, CPUID.7.1, CPUID.80000001 registers and XCR0 (symbolic), under the XCR0 consistency of the statement"
    rep.assumptions += ["CPUID/XGETBV semantics per Intel SDM (ghost machine state read by the modelled inline asm)",
                        "field offsets of supported_arch taken from a native g++ offsetof helper",
                        "__cxa_guard_* modelled single-threaded"]
    return special.finish_special(rep, "C15")


def native_ctor_replay(vals, rdir, idx):
    """replays a detection counterexample on the real constructor through the XSIMD_VERIF CPUID/XGETBV hook"""
    import re, subprocess
    g = {"ghost_cpuid_1": [0] * 4, "ghost_cpuid_7_0": [0] * 4, "ghost_cpuid_7_1": [0] * 4, "ghost_cpuid_80000001": [0] * 4, "ghost_xcr0": 0}
    for k, v in vals.items():
        if v is None:
            continue
        m = re.search(r"(ghost_cpuid_\w+?)\[(\d+)l?\]$", k)
        num = int(re.sub(r"[^0-9-]", "", str(v)) or 0)
        if m and m.group(1) in g:
            g[m.group(1)][int(m.group(2))] = num & 0xffffffff
        elif k.endswith("ghost_xcr0"):
            g["ghost_xcr0"] = num & 0xffffffff
    conds = inv("S", idx)
    src = ["#define XSIMD_VERIF 1", "#include <xsimd/xsimd.hpp>", "#include <cstdio>", "typedef unsigned u32;"]
    for k in ("ghost_cpuid_1", "ghost_cpuid_7_0", "ghost_cpuid_7_1", "ghost_cpuid_80000001"):
        src.append("static u32 %s[4] = {%s};" % (k, ", ".join("%uu" % x for x in g[k])))
    src.append("static u32 ghost_xcr0 = %uu;" % g["ghost_xcr0"])
    src.append("#define GHOST_OSXSAVE ((ghost_cpuid_1[2] >> 27) & 1)\n#define GHOST_XCR0(b) ((ghost_xcr0 >> (b)) & 1)")
    src.append('extern "C" void xsimd_verif_cpuid(int reg[4], int level, int count) { const u32* r = 0; static u32 z[4] = {0,0,0,0};'
               " if (level == 1) r = ghost_cpuid_1; else if (level == 7 && count == 0) r = ghost_cpuid_7_0; else if (level == 7 && count == 1) r = ghost_cpuid_7_1;"
               " else if ((unsigned)level == 0x80000001u) r = ghost_cpuid_80000001; else r = z; for (int i = 0; i < 4; ++i) reg[i] = (int)r[i]; }")
    src.append('extern "C" unsigned xsimd_verif_xgetbv() { return ghost_xcr0; }')
    src.append("struct view { unsigned f[64]; };")
    src.append("int main() { xsimd::detail::supported_arch a; view S_; std::memcpy(&S_, &a, sizeof a); int bad = 0;")
    for i, c in enumerate(conds):
        c2 = re.sub(r"S\.f(\d+)", r"S_.f[\1]", c)
        src.append('  if (!(%s)) { std::printf("violated clause %d\\n"); bad = 1; }' % (c2, i))
    src.append('  std::printf("{\\"reproduced\\": %s}\\n", bad ? "true" : "false"); return bad; }')
    with open(os.path.join(rdir, "driver.cpp"), "w") as f:
        f.write("\n".join(src) + "\n")
    with open(os.path.join(rdir, "build.sh"), "w") as f:
        f.write("#!/bin/sh\ncd \"$(dirname \"$0\")\"\nR=${XSIMD_REPO:-/repo}\ng++ -std=c++14 -O1 -w -I $R/include driver.cpp -o replay.bin && ./replay.bin\n")
    p = subprocess.run(["sh", os.path.join(rdir, "build.sh")], stdout=subprocess.PIPE, stderr=subprocess.STDOUT, universal_newlines=True, timeout=300)
    try:
        os.unlink(os.path.join(rdir, "replay.bin"))
    except OSError:
        pass
    out = p.stdout.strip()
    rep = None
    if '"reproduced": true' in out:
        rep = True
    elif '"reproduced": false' in out:
        rep = False
    return {"reproduced": rep, "output": out[-1500:], "machine_state": g}
