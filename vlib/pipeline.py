"""Extraction (clang -> bitcode -> ll2c) and verification (goto-cc / goto-instrument --dfcc / cbmc) pipeline."""
import os, json, subprocess, resource, time, re, shutil, concurrent.futures as cf
from .common import *
from . import gen, table

CLANG = "clang++-14"


def compile_tu(workdir, tag, cpp_text, extra=(), exceptions=False):
    os.makedirs(workdir, exist_ok=True)
    src = os.path.join(workdir, tag + ".cpp")
    bc = os.path.join(workdir, tag + ".bc")
    with open(src, "w") as f:
        f.write(cpp_text)
    cmd = [CLANG, "-std=c++14", "-O0", "-g", "-fno-discard-value-names", "-fexceptions" if exceptions else "-fno-exceptions", "-ffp-contract=on", "-Xclang",
           "-disable-O0-optnone", "-w", "-Wno-argument-outside-range", "-ferror-limit=0"] + MFLAGS + ["-include", os.path.join(VERIF, "extract", "shim.h"), "-I", os.path.join(REPO, "include"),
                                                  "-c", "-emit-llvm", src, "-o", bc] + list(extra)
    t0 = time.time()
    r = sh(cmd)
    if r.returncode != 0:
        e = Infra("extraction TU %s does not compile (renamed API or harness generator out of date):\n%s" % (tag, r.stdout[-3000:]))
        e.compiler_output = r.stdout
        raise e
    lst = os.path.join(workdir, tag + ".list.json")
    r = sh([LL2C, bc, "--list", lst])
    if r.returncode != 0:
        raise Infra("ll2c --list failed: " + r.stdout[-2000:])
    with open(lst) as f:
        fns = json.load(f)["functions"]
    return bc, {f["name"]: f for f in fns}, time.time() - t0


def discover(fnmap):
    """classify every defined function of the module; returns {mangled: gen.Fn} for those carrying a contract row"""
    out = {}
    for name, f in fnmap.items():
        if not f.get("defined"):
            continue
        fn = gen.classify(name, f["demangled"])
        if fn is None:
            continue
        kinds = ""
        if fn.cls_type is not None and not getattr(fn, "static", False):
            kinds += {"batch": "B", "bool": "M", "cbatch": "C"}[fn.cls_type.kind]
        bad = False
        for p in fn.ptypes:
            if p.kind in ("tag", "empty"):
                continue
            k = {"batch": "B", "bool": "M", "cbatch": "C", "scalar": "S", "mem": "P", "rows": "R"}.get(p.kind)
            if not k:
                bad = True
                break
            kinds += k
        if bad:
            continue
        fn.kinds = kinds
        cand = [p for p in fn.ptypes if p.aid] + ([fn.cls_type] if fn.cls_type is not None else [])
        if not cand and fn.sig.ret:
            rp = gen.PType(fn.sig.ret)
            if rp.aid:
                cand = [rp]
        if not cand:
            # scalar overloads (xsimd_scalar.hpp): all parameters scalars of one element type
            sc = [p for p in fn.ptypes if p.kind == "scalar" and not getattr(p, "is_bool", False)]
            if fn.level == "api" and sc and os.path.basename(f.get("file", "")) == "xsimd_scalar.hpp":
                fn.tid, fn.aid = sc[0].tid, None
                fn.kinds = "".join("b" if getattr(p, "is_bool", False) else "S" for p in fn.ptypes if p.kind == "scalar")
                fn.row = table.lookup(fn)
                if fn.row is not None:
                    fn.file, fn.line = f.get("file", ""), f.get("line", 0)
                    out[name] = fn
            continue
        fn.tid, fn.aid = cand[0].tid, cand[0].aid
        fn.row = table.lookup(fn)
        if fn.row is None:
            continue
        fn.file, fn.line = f.get("file", ""), f.get("line", 0)
        out[name] = fn
    return out


def reachable(fnmap, roots, stop=None):
    seen, work = set(), list(roots)
    while work:
        n = work.pop()
        if n in seen or n not in fnmap:
            continue
        seen.add(n)
        work += fnmap[n].get("callees", [])
    return seen


def run_ll2c(bc, jobs, workdir, tag, keep_all=()):
    jf = os.path.join(workdir, tag + ".jobs.json")
    with open(jf, "w") as f:
        json.dump({"keep_all": list(keep_all), "jobs": jobs}, f)
    r = subprocess.run([LL2C, bc, "--jobs", jf], stdout=subprocess.PIPE, stderr=subprocess.PIPE, universal_newlines=True)
    if r.returncode != 0:
        raise Infra("ll2c failed: " + r.stderr[-2000:])
    return json.loads(r.stdout)


# ----------------------------------------------------------------------------------------------------------------
_WRAP = ["bash", "-c", "ulimit -v 12000000; exec \"$@\"", "--"]


def _run(cmd, timeout, cwd=None):
    """run a tool in its own process group so that a timeout also stops external solvers spawned by cbmc"""
    import signal
    t0 = time.time()
    p = subprocess.Popen(_WRAP + cmd, stdout=subprocess.PIPE, stderr=subprocess.STDOUT, universal_newlines=True, cwd=cwd,
                         start_new_session=True)
    try:
        out, _ = p.communicate(timeout=timeout)
        return p.returncode, out, time.time() - t0
    except subprocess.TimeoutExpired:
        try:
            os.killpg(p.pid, signal.SIGKILL)
        except OSError:
            pass
        try:
            p.communicate(timeout=10)
        except Exception:
            pass
        return -9, "", time.time() - t0
    finally:
        try:
            os.killpg(p.pid, signal.SIGKILL)   # no stragglers (external SMT solver children)
        except OSError:
            pass


CVC5_INT = os.path.join(VERIF, "tools", "cvc5int.sh")


def verify_one(task):
    """task: dict(cfile, contracts, harness, target, replace[], mode, backend, unwind, timeout, workdir, stem)
    -> dict(status: proved|failed|undecided|infra, props: [...], seconds, detail)"""
    wd, stem = task["workdir"], task["stem"]
    gb = os.path.join(wd, stem + ".gb")
    gb2 = os.path.join(wd, stem + ".i.gb")
    defs = ["-DLL2C_CONTRACTS_H=\"%s\"" % task["contracts"], "-DLL2C_HARNESS_H=\"%s\"" % task["harness"]]
    if task["mode"] == "uf":
        defs.append("-DLL_MODE_UF")
    elif task["mode"] == "ufadd":
        defs += ["-DLL_MODE_UF", "-DLL_MODE_UF_ADD"]
    elif task["mode"] == "specuf":      # contract-only lemmas: the spec functions themselves are uninterpreted
        defs += ["-DLL_MODE_UF", "-DLL_MODE_UF_ADD", "-DSPEC_UF"]
    defs += task.get("defs", [])
    inc = ["-I", os.path.join(VERIF, "rt"), "-I", os.path.join(VERIF, "models"), "-I", os.path.join(VERIF, "spec"), "-I", wd]
    res = {"target": task["target"], "mode": task["mode"], "backend": task["backend"], "stem": stem}
    rc, out, t1 = _run(["goto-cc"] + inc + defs + ["--function", "harness", task["cfile"], "-o", gb], 120)
    if rc != 0:
        res.update(status="infra", detail="goto-cc: " + out[-1500:], seconds=t1)
        return res
    if task.get("plain"):
        # uninstrumented harness: preconditions are assumptions and obligations are assertions written in the harness
        # (used where the obligation is an iteration bound / a callee precondition and dfcc's instrumentation is too heavy)
        shutil.copyfile(gb, gb2)
        t2 = 0.0
    else:
        rc, out, t1b = _run(["goto-instrument", "--add-library", gb, gb], 120)
        if rc != 0:
            res.update(status="infra", detail="goto-instrument --add-library: " + out[-1500:], seconds=t1)
            return res
        t1 += t1b
        cmd = ["goto-instrument", "--dfcc", "harness", "--enforce-contract", task["target"]]
        for c in task["replace"]:
            cmd += ["--replace-call-with-contract", c]
        if task.get("loop_contracts"):
            cmd += ["--apply-loop-contracts"]
        rc, out, t2 = _run(cmd + [gb, gb2], 300)
        if rc != 0:
            res.update(status="infra", detail="goto-instrument: " + out[-1500:], seconds=t1 + t2)
            return res
    cb = ["cbmc", "--bounds-check", "--pointer-check", "--unwind", str(task.get("unwind", 1)), "--unwinding-assertions", "--object-bits", "10",
          "--json-ui", "--trace"] + task.get("cbmc_flags", [])
    if task["backend"] == "cvc5int":
        cb += ["--cvc5", "--external-smt2-solver", CVC5_INT]
    elif task["backend"] == "cadical":
        cb += ["--sat-solver", "cadical"]
    elif task["backend"] == "z3":
        cb += ["--z3"]
    rc, out, t3 = _run(cb + [gb2], task.get("timeout", 120))
    for ob in ("12", "14"):
        if "too many addressed objects" not in out:
            break
        cb[cb.index("--object-bits") + 1] = ob
        rc, out, t3b = _run(cb + [gb2], task.get("timeout", 120))
        t3 += t3b
    res["seconds"] = t1 + t2 + t3
    res["solver_seconds"] = t3
    for f in (gb, gb2):
        try:
            os.unlink(f)
        except OSError:
            pass
    if rc == -9:
        res.update(status="undecided", detail="timeout after %ds" % task.get("timeout", 120))
        return res
    try:
        js = json.loads(out)
    except Exception:
        # typically an SMT2-conversion invariant violation of CBMC: this back end cannot decide, others may
        res.update(status="undecided", detail="back end %s could not process the problem: %s" % (task["backend"], out[-300:].replace("\n", " ")))
        return res
    props, msgs = None, []
    for item in js:
        if isinstance(item, dict):
            if "result" in item:
                props = item["result"]
            if item.get("messageType") in ("ERROR", "WARNING"):
                msgs.append(item.get("messageText", ""))
    if props is None:
        res.update(status="infra" if rc not in (0, 10) else "undecided", detail="no result from cbmc: " + " | ".join(msgs)[-1500:])
        return res
    bad_msgs = [m for m in msgs if "ignoring" in m or "no body for function" in m]
    # "not enough arguments": a specification helper (called only from contract clauses, which dfcc leaves uninstrumented) calls a helper
    # that dfcc did instrument (extra write-set parameter); CBMC passes a non-deterministic pointer, through which the contracts library
    # only records local declarations -- the helper's result does not depend on it.  Counted and reported as an assumption.
    res["write_set_arg_warnings"] = len([m for m in msgs if "not enough arguments" in m])
    canary = [p for p in props if "canary" in p.get("description", "")]
    real = [p for p in props if "canary" not in p.get("description", "")]
    res["n_props"] = len(real)
    res["n_post"] = len([p for p in real if ".postcondition" in p["property"] or "postcondition" in p.get("description", "").lower()])
    failed = [p for p in real if p["status"] != "SUCCESS"]
    res["failed"] = [{"property": p["property"], "description": p.get("description", ""), "status": p["status"],
                      "trace": p.get("trace")} for p in failed]
    res["sample_props"] = [p["property"] + ": " + p.get("description", "")[:100] for p in real[:3]]
    libfail = [p for p in failed if re.match(r"^(feraiseexcept|fesetround|fegetround|feclearexcept)\.", p["property"])]
    if bad_msgs:
        res.update(status="infra", detail="cbmc warnings: " + " | ".join(bad_msgs)[:1500])
    elif libfail:
        # an assertion inside CBMC's own C-library model (the floating-point environment stubs reached from its concrete fma): says nothing
        # about the function under proof; this attempt decides nothing
        res.update(status="undecided", detail="assertion of CBMC's library model failed (%s): this attempt cannot decide" % libfail[0]["property"])
        res["failed"] = []
    elif (not canary or canary[0]["status"] == "SUCCESS") and failed and all(p["status"] == "FAILURE" for p in failed):
        # the end of the harness is unreachable because an obligation before it fails on every path (assert(false) in the source)
        res.update(status="failed", detail="; ".join(p["property"] for p in failed[:5]))
    elif not canary or canary[0]["status"] == "SUCCESS":
        res.update(status="infra", detail="vacuity canary did not fail: preconditions contradictory or harness unreachable")
    elif res["n_post"] == 0 and not task.get("plain"):
        res.update(status="infra", detail="no postcondition obligation generated")
    elif failed and not any(p["status"] == "FAILURE" for p in failed):
        # only ERROR / UNKNOWN: the decision procedure gave up (SMT back ends on large problems); not an answer
        res.update(status="undecided", detail="back end %s returned %s for %d obligations" % (task["backend"], sorted(set(p["status"] for p in failed)), len(failed)))
        res["failed"] = []
    elif any(p["status"] != "FAILURE" for p in failed):
        # definite failures next to obligations left UNKNOWN (those that follow the failing access on the same path): the failures count
        res["failed"] = [f for f in res["failed"] if f["status"] == "FAILURE"]
        res.update(status="failed", detail="; ".join(f["property"] for f in res["failed"][:5]))
    elif failed:
        res.update(status="failed", detail="; ".join(p["property"] for p in failed[:5]))
    else:
        res.update(status="proved", detail="")
    return res


DEADLINE = None     # wall-clock budget of the quick tier: tasks not started by then are listed as "not run", never counted


def _budget_left():
    return None if DEADLINE is None else DEADLINE - time.time()


def verify_chain(task):
    """run the attempts of a task in order until one proves it or a concrete-mode counterexample is found"""
    best = None
    hist = []
    abstract_failed = False
    for (mode, backend, tmo) in task["attempts"]:
        if abstract_failed and mode != "concrete":
            continue
        left = _budget_left()
        if left is not None:
            if left < 20:
                if best is None:
                    best = {"target": task["target"], "mode": mode, "backend": backend, "stem": task["stem"], "status": "undecided",
                            "detail": "not run: time budget of the quick tier exhausted", "seconds": 0, "budget": True}
                break
            tmo = int(min(tmo, max(20, left)))
        t = dict(task)
        t.update(mode=mode, backend=backend, timeout=tmo)
        r = verify_one(t)
        hist.append((mode, backend, r["status"], round(r.get("seconds", 0), 1)))
        if r["status"] == "proved":
            best = r
            break
        if best is None or r["status"] == "failed" or best["status"] in ("undecided", "infra"):
            if not (best is not None and best["status"] == "failed" and best["mode"] == "concrete"):
                best = r
        if r["status"] == "failed" and r["mode"] == "concrete":
            break
        if r["status"] == "failed" and r["mode"] != "concrete":
            abstract_failed = True
        if r["status"] == "infra" and not hist[:-1]:
            break   # the first attempt already cannot be built: later ones share the problem
    best["history"] = hist
    return best


def run_pool(tasks, workers=16):
    out = []
    with cf.ThreadPoolExecutor(max_workers=workers) as ex:
        for r in ex.map(verify_chain, tasks):
            out.append(r)
    return out
