"""C18: aligned_allocator -- typestate contracts over an assumed posix_memalign/free contract."""
import os, shutil
from .common import *
from . import check, special, pipeline

TYPES18 = [("char", "c", 1), ("int16_t", "s", 2), ("float", "f", 4), ("double", "d", 8), ("blk64", "5blk64", 64)]
ALIGNS = [8, 16, 32, 64, 4096]
# get_alignment_offset is also instantiated for element types whose size exceeds their alignment (complex: pointers aligned to the
# component but not to the element have no aligned element at all)
GAO_TYPES = TYPES18[:4] + [("std::complex<float>", "cf", 8), ("std::complex<double>", "cd", 16)]

LIBC = r'''
/* assumed contract of the C library (dependency): posix_memalign either fails (non-zero, *out unspecified) or returns a fresh
 * block of `size` bytes whose address is a multiple of `alignment` and of nothing larger than what was asked for
 * (the block starts `alignment` bytes into a larger object, so an alignment argument that is too small is visible);
 * free accepts exactly such a live block, once. */
u8 ghost_live;            /* 1 while the block handed out is live */
u8 *ghost_block;          /* the block handed out by the last successful posix_memalign */
u64 ghost_block_size;
u8 ghost_leak_or_corruption;
u32 posix_memalign(u8 **out, u64 alignment, u64 size) {
  __CPROVER_assert(alignment >= 8 && (alignment & (alignment - 1)) == 0, "posix_memalign precondition: alignment is a power of two multiple of sizeof(void*)");
  if (nondet_u1() || size > ((u64)1 << 40) || alignment > ((u64)1 << 20)) { *out = (u8 *)nondet_ptr(); return 12; }
  u8 *base = (u8 *)__CPROVER_allocate(size + 2 * alignment, 0);
  __CPROVER_assume(base != 0);
  ghost_block = base + alignment; ghost_block_size = size; ghost_live = 1;
  *out = ghost_block;
  return 0;
}
/* malloc: a fresh block aligned to alignof(max_align_t) = 16 and to nothing larger */
u8 *malloc(u64 size) {
  if (nondet_u1() || size > ((u64)1 << 40)) return 0;
  u8 *base = (u8 *)__CPROVER_allocate(size + 32, 0);
  __CPROVER_assume(base != 0);
  ghost_block = base + 16; ghost_block_size = size; ghost_live = 1;
  return ghost_block;
}
void free(u8 *p) {
  if (p == 0) return;
  __CPROVER_assert(ghost_live && p == ghost_block, "free: pointer is a live block obtained from posix_memalign (no double free / foreign pointer)");
  ghost_live = 0;
}
'''


def run(tier, seed):
    rep = check.Report("C18", tier, seed)
    wd = os.path.join(BUILD, "run_C18_%d" % os.getpid())
    shutil.rmtree(wd, ignore_errors=True)
    os.makedirs(wd)
    rep.wd = wd
    S = special.Simple(rep)
    combos = [(t, a) for t in TYPES18 for a in ALIGNS] if tier == "thorough" else [(TYPES18[i], ALIGNS[(i + k) % 5]) for i in range(5) for k in (0, 2)]
    tu = ["#include <xsimd/xsimd.hpp>", "#include <cstdint>", "#include <complex>", "struct blk64 { char b[64]; };"]
    for (ct, mg, sz), al in combos:
        A = "xsimd::aligned_allocator<%s, %d>" % (ct, al)
        tag = "%s_%d" % (ct, al)
        tu.append('extern "C" %s* e_alloc_%s(%s* a, size_t n) { return a->allocate(n); }' % (ct, tag, A))
        tu.append('extern "C" void e_dealloc_%s(%s* a, %s* p, size_t n) { a->deallocate(p, n); }' % (tag, A, ct))
        tu.append('extern "C" size_t e_max_%s(%s* a) { return a->max_size(); }' % (tag, A))
    eqpairs = [(8, 8), (16, 32), (64, 64), (32, 4096)]
    for a1, a2 in eqpairs:
        tu.append('extern "C" bool e_eq_%d_%d(xsimd::aligned_allocator<float, %d>* a, xsimd::aligned_allocator<double, %d>* b) { return *a == *b; }' % (a1, a2, a1, a2))
        tu.append('extern "C" bool e_ne_%d_%d(xsimd::aligned_allocator<float, %d>* a, xsimd::aligned_allocator<double, %d>* b) { return *a != *b; }' % (a1, a2, a1, a2))
    archs = [("sse2", "xsimd::sse2", 16), ("avx", "xsimd::avx", 32), ("avx512f", "xsimd::avx512f", 64)]
    for an, ac, al in archs:
        tu.append('extern "C" bool e_isal_%s(void const* p) { return xsimd::is_aligned<%s>(p); }' % (an, ac))
    for ct, mg, sz in GAO_TYPES:
        tu.append('extern "C" size_t e_gao_%s(const %s* p, size_t s, size_t b) { return xsimd::get_alignment_offset(p, s, b); }' % (mg, ct))
    tu.append('extern "C" size_t e_default_alignment() { return xsimd::default_allocator<float>::alignment; }')
    tu.append('extern "C" size_t e_default_arch_alignment() { return xsimd::default_arch::alignment(); }')
    bc, fnmap, tsec = pipeline.compile_tu(wd, "c18", "\n".join(tu) + "\n", exceptions=True)

    def find(prefix):
        return sorted(n for n, f in fnmap.items() if f.get("defined") and f["demangled"].startswith(prefix))
    jobs, meta = [], []
    for (ct, mg, sz), al in combos:
        dem_t = {"char": "char", "int16_t": "short", "float": "float", "double": "double", "blk64": "blk64"}[ct]
        for kind in ("allocate", "deallocate", "max_size"):
            c = find("xsimd::aligned_allocator<%s, %dul>::%s(" % (dem_t, al, kind))
            if len(c) != 1:
                raise Infra("aligned_allocator<%s,%d>::%s not found (renamed?)" % (ct, al, kind))
            jobs.append({"target": c[0], "out": os.path.join(wd, "j%d.c" % len(jobs))})
            meta.append((kind, ct, sz, al))
    for a1, a2 in eqpairs:
        for op, nm in (("==", "eq"), ("!=", "ne")):
            c = find("bool xsimd::operator%s<float, %dul, double, %dul>(" % (op, a1, a2))
            if len(c) != 1:
                raise Infra("allocator operator%s not found" % op)
            jobs.append({"target": c[0], "out": os.path.join(wd, "j%d.c" % len(jobs)), "keep": find("bool xsimd::operator==<float, %dul, double, %dul>(" % (a1, a2)) if op == "!=" else []})
            meta.append((nm, a1, a2, 0))
    for an, ac, al in archs:
        c = find("bool xsimd::is_aligned<%s>(" % ac)
        jobs.append({"target": c[0], "out": os.path.join(wd, "j%d.c" % len(jobs))})
        meta.append(("is_aligned", an, al, 0))
    for ct, mg, sz in GAO_TYPES:
        dem_t = {"char": "char", "int16_t": "short", "float": "float", "double": "double"}.get(ct)
        c = find("unsigned long xsimd::get_alignment_offset<%s>(" % dem_t) if dem_t else find("unsigned long xsimd::get_alignment_offset<%s" % ct)
        if len(c) != 1:
            raise Infra("get_alignment_offset<%s> not found" % ct)
        jobs.append({"target": c[0], "out": os.path.join(wd, "j%d.c" % len(jobs))})
        meta.append(("gao", ct, sz, 0))
    res = pipeline.run_ll2c(bc, jobs, wd, "c18")
    EXC = ["-DNEED_ll_exception=1"]
    B = special.Batch()
    for j, r, m in zip(jobs, res, meta):
        if not r.get("ok"):
            raise Infra("ll2c: %s: %s" % (j["target"], r.get("error")))
        t = r["target"]
        name = t["name"]
        P = [p["name"] for p in t["params"]]
        kind = m[0]
        replace = []
        pre = ""
        if kind == "allocate":
            _, ct, sz, al = m
            n = P[1]
            fits = "(%s <= (u64)0xffffffffffffffffull / %d)" % (n, sz)
            c = LIBC + "#define CONTRACT_%s \\\n  __CPROVER_requires(ghost_exception_thrown == 0 && ghost_live == 0) \\\n" % name + \
                "  __CPROVER_ensures(ghost_exception_thrown || (__CPROVER_return_value != 0 && ((u64)__CPROVER_return_value %% %d) == 0 && ghost_live && (u8*)__CPROVER_return_value == ghost_block && ghost_block_size >= %s * %d && %s)) \\\n" % (al, n, sz, fits) + \
                "  __CPROVER_ensures(%s || ghost_exception_thrown) \\\n" % fits + \
                "  __CPROVER_ensures(!ghost_exception_thrown || !ghost_live) \\\n" + \
                "  __CPROVER_assigns(ghost_exception_thrown, ghost_live, ghost_block, ghost_block_size, __CPROVER_object_whole(ll_exception_buffer))\n"
            h = "void harness(void) { %s O; u64 n; %s(&O, n, 0); __CPROVER_assert(0, \"canary: end of harness is reachable\"); }\n" % (t["params"][0]["type"][:-1], name)
            title = "aligned_allocator<%s, %d>::allocate" % (ct, al)
        elif kind == "deallocate":
            _, ct, sz, al = m
            p = P[1]
            c = LIBC + "#define CONTRACT_%s \\\n  __CPROVER_requires(ghost_live && (u8*)%s == ghost_block) \\\n  __CPROVER_ensures(!ghost_live) \\\n  __CPROVER_assigns(ghost_live)\n" % (name, p)
            h = ("void harness(void) { %s O; u64 n; u8 *blk = (u8*)__CPROVER_allocate(64, 0); ghost_block = blk; ghost_live = 1; "
                 "%s(&O, (%s)blk, n); __CPROVER_assert(0, \"canary: end of harness is reachable\"); }\n") % (t["params"][0]["type"][:-1], name, t["params"][1]["type"])
            title = "aligned_allocator<%s, %d>::deallocate" % (ct, al)
        elif kind == "max_size":
            _, ct, sz, al = m
            c = "#define CONTRACT_%s \\\n  __CPROVER_ensures(__CPROVER_return_value == (u64)0xffffffffffffffffull / %d) \\\n  __CPROVER_assigns()\n" % (name, sz)
            h = "void harness(void) { %s O; %s(&O); __CPROVER_assert(0, \"canary: end of harness is reachable\"); }\n" % (t["params"][0]["type"][:-1], name)
            title = "aligned_allocator<%s, %d>::max_size" % (ct, al)
        elif kind in ("eq", "ne"):
            _, a1, a2, _ = m
            want = (a1 == a2) if kind == "eq" else (a1 != a2)
            c = "#define CONTRACT_%s \\\n  __CPROVER_ensures(__CPROVER_return_value == %d) \\\n  __CPROVER_assigns()\n" % (name, 1 if want else 0)
            for cal in r["callees"]:
                c += "#define CONTRACT_%s \\\n  __CPROVER_ensures(__CPROVER_return_value == %d) \\\n  __CPROVER_assigns()\n" % (cal["name"], 1 if a1 == a2 else 0)
                replace.append(cal["name"])
            h = "void harness(void) { %s A; %s B; %s(&A, &B); __CPROVER_assert(0, \"canary: end of harness is reachable\"); }\n" % (
                t["params"][0]["type"][:-1], t["params"][1]["type"][:-1], name)
            title = "operator%s(aligned_allocator<float,%d>, aligned_allocator<double,%d>)" % ("==" if kind == "eq" else "!=", a1, a2)
        elif kind == "is_aligned":
            _, an, al, _ = m
            c = "#define CONTRACT_%s \\\n  __CPROVER_ensures((__CPROVER_return_value != 0) == (((u64)%s %% %d) == 0)) \\\n  __CPROVER_assigns()\n" % (name, P[0], al)
            h = "void harness(void) { u64 a; %s((%s)a); __CPROVER_assert(0, \"canary: end of harness is reachable\"); }\n" % (name, t["params"][0]["type"])
            title = "is_aligned<%s>" % an
        else:
            _, ct, sz, _ = m
            p, size, blk = P
            # block-aligned: address a multiple of block_size elements; a block of one element is aligned wherever it is
            al = lambda k: "(%s == 1 || (((u64)%s + (%s) * %d) %% (%s * %d)) == 0)" % (blk, p, k, sz, blk, sz)
            c = "u64 ghost_j;\n#define CONTRACT_%s \\\n  __CPROVER_requires(%s >= 1 && (%s & (%s - 1)) == 0 && %s <= 4096 && %s <= ((u64)1 << 40) && (u64)%s <= ((u64)1 << 56)) \\\n" % (name, blk, blk, blk, blk, size, p) + \
                "  __CPROVER_ensures(__CPROVER_return_value <= %s) \\\n" % size + \
                "  __CPROVER_ensures(__CPROVER_return_value == %s || %s) \\\n" % (size, al("__CPROVER_return_value")) + \
                "  __CPROVER_ensures(!(ghost_j < __CPROVER_return_value) || !%s) \\\n" % al("ghost_j") + \
                "  __CPROVER_assigns()\n"
            h = "void harness(void) { u64 a, s, b; u64 IN_a = a, IN_s = s, IN_b = b; %s((%s)a, s, b); __CPROVER_assert(0, \"canary: end of harness is reachable\"); }\n" % (name, t["params"][0]["type"])
            title = "get_alignment_offset<%s>" % ct
        where = "include/xsimd/memory/xsimd_aligned_allocator.hpp" if kind != "is_aligned" else "include/xsimd/memory/xsimd_alignment.hpp"
        B.add((lambda rr, title=title, where=where, replace=replace: S.add(title, where, rr, replaced=replace)), wd, "t%d" % jobs.index(j), j["out"], c, h, name,
              replace=replace, defs=EXC, attempts=(("concrete", "sat", 120), ("concrete", "cadical", 600)))
    B.run()
    rep.notes["instances"] = ["aligned_allocator<%s,%d>" % (c[0][0], c[1]) for c in combos]
    rep.notes["histories"] = ("allocate establishes live(block); deallocate requires live(block) and clears it: arbitrary interleavings, no leak-by-double-use and no "
                              "double free follow from these two typestate contracts by induction over the history")
    rep.assumptions += ["posix_memalign/free behave as the assumed C-library contract in vlib/c18.py (LIBC)", "exceptions modelled by a ghost flag (throw returns to the caller)"]
    return special.finish_special(rep, "C18")
