"""Recognition of contract-carrying functions and generation of CBMC code contracts + harnesses."""
import re
from .common import TYPES, ARCHS, lanes, Infra
from .sig import Sig, PType, Val, leaves

UW = {8: "u8", 16: "u16", 32: "u32", 64: "u64"}

OPERATOR_OPS = {
    ("+", 2): "add", ("-", 2): "sub", ("*", 2): "mul", ("/", 2): "div", ("%", 2): "mod",
    ("&", 2): "bitwise_and", ("|", 2): "bitwise_or", ("^", 2): "bitwise_xor", ("~", 1): "bitwise_not",
    ("-", 1): "neg", ("+", 1): "pos", ("<<", 2): "bitwise_lshift", (">>", 2): "bitwise_rshift",
    ("==", 2): "eq", ("!=", 2): "neq", ("<", 2): "lt", ("<=", 2): "le", (">", 2): "gt", (">=", 2): "ge",
    ("&&", 2): "logical_and", ("||", 2): "logical_or", ("!", 1): "logical_not",
}
COMPOUND_OPS = {"+=": "add", "-=": "sub", "*=": "mul", "/=": "div", "%=": "mod", "&=": "bitwise_and", "|=": "bitwise_or",
                "^=": "bitwise_xor", "<<=": "bitwise_lshift", ">>=": "bitwise_rshift"}


METHOD_OPS = {"load_aligned", "load_unaligned", "store_aligned", "store_unaligned", "get", "real", "imag", "gather", "scatter", "from_mask"}
STATIC_METHODS = {"load_aligned", "load_unaligned", "gather", "from_mask"}


class Unsupported(Exception):
    pass


class Fn:
    """A function of the extracted module that carries a contract."""

    def __init__(self, name, sig, level, op, ptypes, cls_type):
        self.name, self.sig, self.level, self.op = name, sig, level, op
        self.ptypes = ptypes          # PType per demangled parameter (tags / empties included)
        self.cls_type = cls_type      # PType of the enclosing class for member operators, else None
        self.row = None
        self.tid = self.aid = None
        self.kinds = ""

    def __repr__(self):
        return "Fn(%s %s/%s %s %s %s)" % (self.level, self.op, self.kinds, self.tid, self.aid, self.name[:40])


def classify(name, dem):
    """-> Fn (without row) or None"""
    while "> >" in dem:
        dem = dem.replace("> >", ">>")
    s = Sig(dem)
    if not s.ok:
        return None
    pts = [PType(p) for p in s.params]
    level = op = None
    cls_type = None
    base = s.base
    if s.cls == "xsimd::kernel":
        level, op = "kernel", base
    elif s.cls in ("xsimd", "xsimd::types"):
        if base.startswith("operator"):
            sym = base[8:]
            nargs = len([p for p in pts if p.kind not in ("tag", "empty")])
            op = OPERATOR_OPS.get((sym, nargs))
            level = "operator"
        elif s.cls == "xsimd":
            level, op = "api", base
    else:
        ct = PType(s.cls)
        if ct.kind in ("batch", "bool", "cbatch") and base.startswith("operator"):
            sym = base[8:]
            cls_type = ct
            if sym in COMPOUND_OPS:
                level, op = "compound", COMPOUND_OPS[sym]
            else:
                nargs = 1 + len([p for p in pts if p.kind not in ("tag", "empty")])
                op = OPERATOR_OPS.get((sym, nargs))
                level = "member"
        elif ct.kind in ("batch", "bool", "cbatch") and base in METHOD_OPS:
            cls_type = ct
            level, op = "method", base
    if not op:
        return None
    fn = Fn(name, s, level, op, pts, cls_type)
    fn.static = (level == "method" and base in STATIC_METHODS)
    return fn


# ----------------------------------------------------------------------------------------------------------------
class Arg:
    """accessor for one semantic argument / result"""

    def __init__(self, kind, tid, aid, val=None, scalar=None):
        self.kind, self.tid, self.aid, self.val, self.scalar = kind, tid, aid, val, scalar
        self.w = TYPES[tid][2] if tid else None
        self.n = lanes(tid, aid) if (tid and aid) else None
        self.bkind = ARCHS[aid][2] if aid else None

    # batch lanes (bit patterns)
    def lane_pre(self, i):
        """lane in the pre-state, for requires clauses (no __CPROVER_old there)"""
        v = getattr(self, "val_pre", None)
        if v is None:
            return self.lane(i)
        return v.lane(self.tid, i)

    def lane(self, i):
        if self.kind == "S":
            if TYPES[self.tid][3] == "f":
                return "F2U%d(%s)" % (self.w, self.scalar)
            return "((%s)%s)" % (UW[self.w], self.scalar)
        return self.val.lane(self.tid, i)

    def re(self, i):  # complex batch: real part batch first, imaginary part second
        return self.val.lane(self.tid, i)

    def im(self, i):
        return self.val.lane(self.tid, i, base=self.val.size // 2)

    # array of batches (kind R): accessor for row j
    def row(self, j, old=False):
        v = Val(self.ctype, "(%s%s + %d)" % ("OLD_" if (old and self.native) else "", self.scalar, j), self.tinfo, native=self.native)
        if old and not self.native:
            v = v.as_old()
        return Arg("B", self.tid, self.aid, v)

    # memory (kind P): element i of the array the pointer addresses, as a bit pattern
    def elem(self, i, old=False):
        e = "%s[%d]" % (self.scalar, i)
        if old and getattr(self, "native", False):
            e = "OLD_%s[%d]" % (self.cname, i)      # native replay: the pre-state copy of the buffer
        elif old:
            e = "__CPROVER_old(%s)" % e
        if TYPES[self.tid][3] == "f":
            return "F2U%d(%s)" % (self.w, e)
        return "((%s)%s)" % (UW[self.w], e)

    # batch_bool
    def truth(self, i):
        if self.bkind == "kmask":
            return "((%s >> %d) & 1)" % (self.val.bits(0, self.val.size), i)
        if self.bkind == "boolarr":
            return "(%s != 0)" % self.val.bits(i, 1)
        return "(%s != 0)" % self.val.lane(self.tid, i)

    def wf(self):
        """well-formedness of a batch_bool (list of C conditions)"""
        if self.bkind == "kmask":
            nb = self.val.size * 8
            if self.n < nb:
                return ["(%s >> %d) == 0" % (self.val.bits(0, self.val.size), self.n)]
            return []
        if self.bkind == "boolarr":
            return ["%s <= 1" % self.val.bits(i, 1) for i in range(self.n)]
        ones = {8: "0xffu", 16: "0xffffu", 32: "0xffffffffu", 64: "0xffffffffffffffffull"}[self.w]
        return ["(%s == 0 || %s == %s)" % (self.val.lane(self.tid, i), self.val.lane(self.tid, i), ones) for i in range(self.n)]

    def is_true_iff(self, i, cond):
        """condition: bool lane i of this value encodes exactly `cond` (used for results)"""
        if self.bkind == "kmask":
            return "(%s == (%s))" % (self.truth(i), cond)
        if self.bkind == "boolarr":
            return "(%s == ((%s) ? 1 : 0))" % (self.val.bits(i, 1), cond)
        ones = {8: "0xffu", 16: "0xffffu", 32: "0xffffffffu", 64: "0xffffffffffffffffull"}[self.w]
        return "(%s == ((%s) ? %s : 0))" % (self.val.lane(self.tid, i), cond, ones)


class Ctx:
    def __init__(self, fn, job):
        self.fn, self.job = fn, job
        self.tid, self.aid = fn.tid, fn.aid
        self.T = fn.tid
        self.n = lanes(fn.tid, fn.aid) if fn.aid else 1
        self.w = TYPES[fn.tid][2]
        self.U = UW[self.w]
        self.isfloat = TYPES[fn.tid][3] == "f"
        self.signed = TYPES[fn.tid][3] == "s"
        self.args = []
        self.ret = None
        self.requires, self.ensures, self.assigns = [], [], []
        self.variant = None

    def spec(self, name, *a):
        return "spec_%s_%s(%s)" % (name, self.T, ", ".join(a))

    def eq(self, a, b):
        if self.isfloat:
            return "spec_same_%s(%s, %s)" % (self.T, a, b)
        return "(%s == %s)" % (a, b)


def bind(fn, sigjson, tinfo, native=False):
    """Match IR parameters with the demangled ones; returns Ctx with args/ret accessors bound to C expressions."""
    ctx = Ctx(fn, tinfo)
    ctx.native = native
    irp = list(sigjson["params"])
    sret = None
    if irp and irp[0]["sret"]:
        sret = irp.pop(0)
    this = None
    if fn.cls_type is not None and not getattr(fn, "static", False):
        this = irp.pop(0)
    dem = [p for p in fn.ptypes if p.kind != "empty"]
    if len(dem) != len(irp):
        raise Unsupported("parameter count mismatch: IR %d vs demangled %d for %s" % (len(irp), len(dem), fn.sig.dem))
    ctx.ptr_params = []   # (cname, pointee ctype, writable)
    ctx.scalar_params = []
    ctx.ir_order = []     # harness call order: ('sret'|'this'|'ptr'|'scalar'|'tag', cname, ctype)
    if sret:
        ctx.ir_order.append(("sret", sret["name"], sret["type"]))
    if this:
        ctx.ir_order.append(("this", this["name"], this["type"]))
        a = Arg({"batch": "B", "bool": "M", "cbatch": "C"}[fn.cls_type.kind], fn.cls_type.tid, fn.cls_type.aid,
                Val(this["type"], this["name"], tinfo, native=native))
        a.cname, a.is_this = this["name"], True
        if fn.level == "compound":
            a.val_pre = a.val
            a.val = a.val.as_old()
        ctx.args.append(a)
    for pt, ip in zip(dem, irp):
        if pt.kind == "tag":
            ctx.ir_order.append(("tag", ip["name"], ip["type"]))
            continue
        if pt.kind in ("batch", "bool", "cbatch"):
            a = Arg({"batch": "B", "bool": "M", "cbatch": "C"}[pt.kind], pt.tid, pt.aid, Val(ip["type"], ip["name"], tinfo, native=native))
            a.cname, a.is_this = ip["name"], False
            a.writable = pt.ref and not pt.const
            if fn.level == "compound":
                a.val_pre = a.val
                a.val = a.val.as_old()
            ctx.args.append(a)
            ctx.ir_order.append(("ptr" if ip["type"].endswith("*") else "value", ip["name"], ip["type"]))
        elif pt.kind == "scalar":
            byref = ip["type"].endswith("*")
            a = Arg("S", pt.tid, None, scalar=("(*%s)" % ip["name"]) if byref else ip["name"])
            a.cname = ip["name"]
            a.ctype = ip["type"]
            a.is_bool = getattr(pt, "is_bool", False)
            ctx.args.append(a)
            ctx.ir_order.append(("ptr" if byref else "scalar", ip["name"], ip["type"]))
        elif pt.kind == "rows":
            a = Arg("R", pt.tid, pt.aid, scalar=ip["name"])
            a.cname, a.ctype, a.const, a.tinfo, a.native = ip["name"], ip["type"], pt.const, tinfo, native
            ctx.args.append(a)
            ctx.ir_order.append(("mem", ip["name"], ip["type"]))
        elif pt.kind == "mem":
            a = Arg("P", pt.tid, None, scalar=ip["name"])
            a.cname, a.ctype, a.const = ip["name"], ip["type"], pt.const
            a.complex, a.is_bool = getattr(pt, "complex", False), getattr(pt, "is_bool", False)
            a.native = native
            ctx.args.append(a)
            ctx.ir_order.append(("mem", ip["name"], ip["type"]))
        else:
            raise Unsupported("parameter type %s" % pt.text)
    ctx.sret = sret
    ctx.this = this
    ctx.ret_ctype = sigjson["ret"]
    return ctx


def bind_ret(ctx, kind, tid=None, aid=None):
    """accessor for the result: by value, through sret, or *this for compound operators"""
    tid = tid or ctx.tid
    aid = aid or ctx.aid
    fn = ctx.fn
    if fn.level == "compound":
        v = Val(ctx.this["type"], ctx.this["name"], ctx.job, native=ctx.native)
        ctx.assigns.append("*%s" % ctx.this["name"])
        ctx.ensures.append("__CPROVER_return_value == %s" % ctx.this["name"])
    elif ctx.sret:
        v = Val(ctx.sret["type"], ctx.sret["name"], ctx.job, native=ctx.native)
        ctx.assigns.append("*%s" % ctx.sret["name"])
    elif kind == "S":
        r = Arg("S", tid, None, scalar="__CPROVER_return_value")
        return r
    else:
        if ctx.ret_ctype == "void":
            raise Unsupported("void return where a value is expected")
        v = Val(ctx.ret_ctype, "__CPROVER_return_value", ctx.job, native=ctx.native)
    return Arg(kind, tid, aid, v)


def contract_text(ctx, name):
    lines = ["#define CONTRACT_%s \\" % name]
    for r in ctx.requires:
        lines.append("  __CPROVER_requires(%s) \\" % r)
    for e in ctx.ensures:
        lines.append("  __CPROVER_ensures(%s) \\" % e)
    lines.append("  __CPROVER_assigns(%s)" % ", ".join(ctx.assigns))
    return "\n".join(lines) + "\n"


def conj(xs, chunk=8):
    xs = list(xs)
    if not xs:
        return ["1"]
    return [" && ".join(xs[i:i + chunk]) for i in range(0, len(xs), chunk)]


def harness_text(ctx, name, hname="harness"):
    """Creates argument objects (with possible aliasing among same-typed read-only batches), records every input leaf
    in an OBS_<param>_<leaf> local (so that counterexample traces carry the inputs) and calls the target."""
    L = ["void %s(void) {" % hname]
    if ctx.isfloat or getattr(ctx, "uses_float", False):
        L.append("  ll_use_libm();")
    call = []
    objs = {}
    obs = []   # (obs name, param index, kind, offset, nbytes, leafkind)
    k = 0
    for (kind, cname, ctype) in ctx.ir_order:
        if kind in ("sret", "this", "ptr", "tag"):
            pointee = ctype[:-1].strip()
            L.append("  %s O%d;" % (pointee, k))
            if kind != "tag" and getattr(ctx, "aid", None) and ctx.aid in ARCHS:
                # batch-like objects sit at addresses aligned to the register width (their C++ type's alignment)
                L.append("  __CPROVER_assume(LL_ADDR(&O%d) %% %d == 0);" % (k, 8 if ctx.aid.startswith("emu") else ARCHS[ctx.aid][1] // 8))
            same = [o for (o, t, kd) in objs.values() if t == pointee and kd in ("ptr", "this")] if kind == "ptr" else []
            ref = "O%d" % k
            if same and kind == "ptr":
                L.append("  %s P%d = nondet_u1() ? &O%d : &%s;" % (ctype, k, k, same[0]))
                call.append("P%d" % k)
                ref = "(*P%d)" % k
            else:
                call.append("&O%d" % k)
            objs[cname] = ("O%d" % k, pointee, kind)
            if kind in ("this", "ptr"):
                for j, (off, nb, lk, e) in enumerate(leaves(pointee, ref, ctx.job)):
                    L.append("  %s OBS_%d_%d = %s;" % ({"u": UW.get(nb * 8, "u8"), "f": "f%d" % (nb * 8), "p": "u64"}[lk], k, j, e))
                    obs.append(("OBS_%d_%d" % (k, j), k, kind, off, nb, lk))
        elif kind in ("scalar", "value"):
            if ctype == "u1":   # an i1 holds 0 or 1; an uninitialised _Bool in CBMC may hold any byte
                L.append("  u1 O%d = (nondet_u8() & 1) != 0;" % k)
            else:
                L.append("  %s O%d;" % (ctype, k))
            call.append("O%d" % k)
            for j, (off, nb, lk, e) in enumerate(leaves(ctype, "O%d" % k, ctx.job)):
                L.append("  %s OBS_%d_%d = %s;" % ({"u": UW.get(nb * 8, "u8"), "f": "f%d" % (nb * 8), "p": "u64"}[lk], k, j, e))
                obs.append(("OBS_%d_%d" % (k, j), k, kind, off, nb, lk))
        elif kind == "mem":
            nbytes = getattr(ctx, "mem_bytes", {}).get(cname)
            if nbytes is None:
                raise Unsupported("memory parameter %s without a size in its contract row" % cname)
            eb = getattr(ctx, "end_is_begin_plus", None)
            if eb and eb[0] == cname:
                bk = [kk for kk, (kd, cn, ct) in enumerate(ctx.ir_order) if cn == eb[1]][0]
                call.append("((%s)M%d + %d)" % (ctype, bk, eb[2]))
                k += 1
                continue
            # an object of exactly the accessed size: any access beyond it is a bounds failure
            L.append("  u8 *M%d = (u8*)__CPROVER_allocate(%d, 0);" % (k, nbytes))
            L.append("  __CPROVER_assume(M%d != 0);" % k)
            for line in getattr(ctx, "harness_mem_init", {}).get(cname, []):
                L.append("  " + line.replace("{M}", "M%d" % k))
            for j in range(nbytes):
                L.append("  u8 OBS_%d_%d = M%d[%d];" % (k, j, k, j))
                obs.append(("OBS_%d_%d" % (k, j), k, kind, j, 1, "u"))
            call.append("(%s)M%d" % (ctype, k))
        k += 1
    if hasattr(ctx, "harness_pre"):
        L += ctx.harness_pre
    L.append("  %s(%s);" % (name, ", ".join(call)))
    L.append("  __CPROVER_assert(0, \"canary: end of harness is reachable\");")
    L.append("}")
    ctx.obs = obs
    return "\n".join(L) + "\n"
