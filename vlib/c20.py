"""C20: architecture descriptions and batch geometry -- closed obligations over the compile-time constants as clang evaluates them."""
import os, shutil
from .common import *
from . import check, special, pipeline

ORDER = ["avx512vnni_vbmi2", "avx512vbmi2", "avx512vbmi", "avx512ifma", "avx512pf", "avx512vnni_bw", "avx512bw", "avx512er", "avx512dq",
         "avx512cd", "avx512f", "avxvnni", "fma3_avx2", "avx2", "fma3_avx", "avx", "fma4", "fma3_sse", "sse4_2", "sse4_1", "ssse3", "sse3", "sse2"]
SIZES = [1, 2, 4, 8, 16, 32, 64]
TRAITS = ["as_integer_t", "as_unsigned_integer_t", "as_float_t"]
N_LISTS = 0


POS_IN = ("template <class L, class A> struct pos_in; template <class A, class... R> struct pos_in<xsimd::arch_list<A, R...>, A> { static constexpr unsigned long value = 0; };"
          " template <class H, class... R, class A> struct pos_in<xsimd::arch_list<H, R...>, A> { static constexpr unsigned long value = 1 + pos_in<xsimd::arch_list<R...>, A>::value; };"
          " template <class A> struct pos_in<xsimd::arch_list<>, A> { static constexpr unsigned long value = 1000; };")


def order_tu_lines():
    """extern "C" functions exposing, per architecture, its position in the best-first lists and its base classes (shared with C15)"""
    tu = ["struct row { unsigned long pos_all, pos_sup, base[%d], pos_other[%d]; };" % (len(ORDER), len(ORDER)), POS_IN]
    for i, a in enumerate(ORDER):
        A = ARCHS[a][0]
        body = ["r->pos_all = pos_in<xsimd::all_x86_architectures, %s>::value; r->pos_sup = pos_in<xsimd::supported_architectures, %s>::value;" % (A, A)]
        for j, b in enumerate(ORDER):
            body.append("r->base[%d] = std::is_base_of<%s, %s>::value; r->pos_other[%d] = pos_in<xsimd::all_x86_architectures, %s>::value;" % (j, ARCHS[b][0], A, j, ARCHS[b][0]))
        tu.append('extern "C" void geom_row_%d(row* r) { %s }' % (i, " ".join(body)))
    import itertools
    reps = ["sse2", "avx2", "avx512f"]          # one member per alignment class (16 / 32 / 64 bytes)
    al_lists = [list(c) for n in (1, 2, 3, 4) for c in itertools.product(reps, repeat=n)]
    al_lists += [["sse2", "avx"], ["avx512f", "sse4_2", "avx2"], ["avx2", "fma3_sse"], ["avx", "sse4_1", "avx512bw"], ["ssse3", "fma3_avx2", "sse2", "avx512dq"]]
    global N_LISTS
    N_LISTS = len(al_lists)
    tu.append("struct lists { unsigned long best_is_head, list_align[%d], list_align_expect[%d]; };" % (N_LISTS, N_LISTS))
    body = ["l->best_is_head = std::is_same<xsimd::best_arch, xsimd::supported_architectures::best>::value && pos_in<xsimd::supported_architectures, xsimd::best_arch>::value == 0;"]
    for k, l in enumerate(al_lists):
        body.append("l->list_align[%d] = xsimd::arch_list<%s>::alignment(); l->list_align_expect[%d] = %d;" % (k, ", ".join(ARCHS[a][0] for a in l), k, max(ARCHS[a][1] // 8 for a in l)))
    tu.append('extern "C" void geom_lists(lists* l) { %s }' % " ".join(body))
    return tu


def order_contract(name, P):
    """-> (ensures list, title) for geom_row_<i> / geom_lists"""
    ens = []
    if name.startswith("geom_row_"):
        i = int(name[9:])
        n = len(ORDER)
        ens.append("(*%s).f0 == %d && (*%s).f1 == %d" % (P, i, P, i))   # best-first order; every x86 architecture is supported in this build
        for k in range(n):
            ens.append("(*%s).f3.e[%d] == %d" % (P, k, k))
            if i != k:
                # an extension parent (base class) appears after the architecture in the best-first list
                ens.append("(!(*%s).f2.e[%d] || (*%s).f3.e[%d] > (*%s).f0)" % (P, k, P, k, P))
        return ens, "position and parents of %s in all_x86_architectures / supported_architectures" % ARCHS[ORDER[i]][0]
    ens.append("(*%s).f0 == 1" % P)
    for k in range(N_LISTS):
        ens.append("(*%s).f1.e[%d] == (*%s).f2.e[%d]" % (P, k, P, k))
    return ens, "best_arch heads supported_architectures; arch_list::alignment() is the maximum member alignment (every sequence of alignment classes up to length 4)"


def run(tier, seed):
    rep = check.Report("C20", tier, seed)
    wd = os.path.join(BUILD, "run_C20_%d" % os.getpid())
    shutil.rmtree(wd, ignore_errors=True)
    os.makedirs(wd)
    rep.wd = wd
    S = special.Simple(rep)
    archs = [a for a in ARCHS if not a.startswith("emu")]
    tu = ["#include <xsimd/xsimd.hpp>", "#include <cstdint>", "#include <type_traits>",
          "template <class B> struct lanes_of { static constexpr size_t value = B::size; };",
          "template <> struct lanes_of<void> { static constexpr size_t value = 0; };",
          "struct geom { unsigned long size[10], bsize[10], csize[2], regbytes[10], alignment, requires_alignment, is_batch[10], scalar_w[10], mask_lanes[10], ret_lanes[10], bret_same[10], ret_same[10]; };",
          "struct sized { unsigned long lanes[10][7]; };",
          "struct traits { unsigned long w[10][3]; };"]
    tids = ALL_TYPES
    for a in archs:
        A = ARCHS[a][0]
        body = []
        for i, t in enumerate(tids):
            T = TYPES[t][0]
            B = "xsimd::batch<%s, %s>" % (T, A)
            body.append("g->size[%d] = %s::size; g->bsize[%d] = xsimd::batch_bool<%s, %s>::size; g->regbytes[%d] = sizeof(typename %s::register_type);" % (i, B, i, T, A, i, B))
            body.append("g->is_batch[%d] = xsimd::is_batch<%s>::value; g->scalar_w[%d] = sizeof(typename xsimd::scalar_type<%s>::type);" % (i, B, i, B))
            body.append("g->mask_lanes[%d] = xsimd::mask_type_t<%s>::size; g->ret_lanes[%d] = xsimd::simd_return_type<%s, %s, %s>::size;" % (i, B, i, T, T, A))
            body.append("g->bret_same[%d] = std::is_same<xsimd::simd_return_type<bool, %s, %s>, xsimd::batch_bool<%s, %s>>::value; g->ret_same[%d] = std::is_same<xsimd::simd_return_type<%s, %s, %s>, %s>::value;" % (i, T, A, T, A, i, T, T, A, B))
        body.append("g->csize[0] = xsimd::batch<std::complex<float>, %s>::size; g->csize[1] = xsimd::batch<std::complex<double>, %s>::size;" % (A, A))
        body.append("g->alignment = %s::alignment(); g->requires_alignment = %s::requires_alignment();" % (A, A))
        tu.append('extern "C" void geom_%s(geom* g) { %s }' % (a, " ".join(body)))
    body = []
    for i, t in enumerate(tids):
        for k, n in enumerate(SIZES):
            body.append("s->lanes[%d][%d] = lanes_of<xsimd::make_sized_batch_t<%s, %d>>::value;" % (i, k, TYPES[t][0], n))
    tu.append('extern "C" void geom_sized(sized* s) { %s }' % " ".join(body))
    body = []
    for i, t in enumerate(tids):
        for k, tr in enumerate(TRAITS):
            if tr == "as_float_t" and t not in ("i32", "i64"):
                body.append("t->w[%d][%d] = sizeof(%s);" % (i, k, TYPES[t][0]))   # as_float is only defined for int32_t / int64_t
            else:
                body.append("t->w[%d][%d] = sizeof(xsimd::%s<%s>);" % (i, k, tr, TYPES[t][0]))
    tu.append('extern "C" void geom_traits(traits* t) { %s }' % " ".join(body))
    tu += order_tu_lines()
    bc, fnmap, tsec = pipeline.compile_tu(wd, "c20", "\n".join(tu) + "\n")
    targets = ["geom_%s" % a for a in archs] + ["geom_sized", "geom_traits", "geom_lists"] + ["geom_row_%d" % i for i in range(len(ORDER))]
    jobs = [{"target": t, "out": os.path.join(wd, t + ".c")} for t in targets]
    res = pipeline.run_ll2c(bc, jobs, wd, "c20")
    B = special.Batch()
    for j, r in zip(jobs, res):
        if not r.get("ok"):
            raise Infra("ll2c: %s: %s" % (j["target"], r.get("error")))
        name = j["target"]
        p0 = r["target"]["params"][0]
        P, ST = p0["name"], p0["type"][:-1].strip()
        ens = []
        if name.startswith("geom_") and name[5:] in ARCHS:
            a = name[5:]
            regbits = ARCHS[a][1]
            # field order of struct geom: size, bsize, csize, regbytes, alignment, requires_alignment, is_batch, scalar_w, mask_lanes, ret_lanes
            for i, t in enumerate(tids):
                w = TYPES[t][2] // 8
                ens.append("(*%s).f0.e[%d] * %d == %d" % (P, i, w, regbits // 8))            # size * sizeof(T) == register width
                ens.append("(*%s).f1.e[%d] == (*%s).f0.e[%d]" % (P, i, P, i))                  # batch_bool has the same lane count
                ens.append("(*%s).f3.e[%d] == %d" % (P, i, regbits // 8))                      # sizeof(register_type)
                ens.append("(*%s).f6.e[%d] == 1 && (*%s).f7.e[%d] == %d" % (P, i, P, i, w))    # is_batch, scalar_type width
                ens.append("(*%s).f8.e[%d] == (*%s).f0.e[%d] && (*%s).f9.e[%d] == (*%s).f0.e[%d]" % (P, i, P, i, P, i, P, i))
                ens.append("(*%s).f10.e[%d] == 1 && (*%s).f11.e[%d] == 1" % (P, i, P, i))      # simd_return_type names the batch / batch_bool of the same architecture
            ens.append("(*%s).f2.e[0] == (*%s).f0.e[8] && (*%s).f2.e[1] == (*%s).f0.e[9]" % (P, P, P, P))    # complex batches: lanes of float/double
            ens.append("(*%s).f4 != 0 && ((*%s).f4 & ((*%s).f4 - 1)) == 0 && (*%s).f4 >= %d" % (P, P, P, P, regbits // 8))  # alignment: power of two >= aligned-load requirement
            title, where = "geometry of %s" % ARCHS[a][0], "include/xsimd/types/xsimd_%s_register.hpp" % a
        elif name == "geom_sized":
            for i, t in enumerate(tids):
                for k, n in enumerate(SIZES):
                    ens.append("((*%s).f0.e[%d].e[%d] == %d || (*%s).f0.e[%d].e[%d] == 0)" % (P, i, k, n, P, i, k))
                    bits = n * TYPES[t][2]
                    if bits in (128, 256, 512):
                        ens.append("(*%s).f0.e[%d].e[%d] == %d" % (P, i, k, n))   # every x86 width is enabled in this build: a batch exists
            title, where = "make_sized_batch<T, N>", "include/xsimd/types/xsimd_batch.hpp"
        elif name == "geom_traits":
            for i, t in enumerate(tids):
                w = TYPES[t][2] // 8
                ens.append(" && ".join("(*%s).f0.e[%d].e[%d] == %d" % (P, i, k, w) for k in range(3)))
            title, where = "as_integer / as_unsigned_integer / as_float traits", "include/xsimd/types/xsimd_utils.hpp"
        else:
            ens, title = order_contract(name, P)
            where = "include/xsimd/config/xsimd_arch.hpp"
        chunks = [" && ".join(ens[i:i + 12]) for i in range(0, len(ens), 12)]
        c = "#define CONTRACT_%s \\\n" % name + "".join("  __CPROVER_ensures(%s) \\\n" % e for e in chunks) + "  __CPROVER_assigns(*%s)\n" % P
        h = "void harness(void) { %s O; %s(&O); __CPROVER_assert(0, \"canary: end of harness is reachable\"); }\n" % (ST, name)
        B.add((lambda rr, title=title, where=where: S.add(title, where, rr)), wd, name, j["out"], c, h, name, attempts=(("concrete", "sat", 300),))
    B.run()
    rep.notes["exhaustive"] = True
    rep.notes["configuration_space"] = "%d architectures x %d element types; make_sized_batch for N in %s; %d-entry architecture list" % (len(archs), len(tids), SIZES, len(ORDER))
    rep.assumptions += ["register widths 128/256/512 and aligned-load requirements (16/32/64 bytes) per Intel SDM", "constants evaluated by clang 14 (test build uses g++ 12)"]
    return special.finish_special(rep, "C20")
