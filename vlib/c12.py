"""C12 (partial): special values, domains and limits of the elementary functions.
Each clause is an obligation on the public function xsimd::f<T, A>: lane k is constrained to the operand class of the clause, the
other lanes are unconstrained (so the any()/all() early exits are exercised both ways), the result lane k must satisfy the clause.
Obligations are assertions of an uninstrumented harness (plain CBMC over the fully inlined real kernel, concrete IEEE arithmetic,
--slice-formula); clauses the solver does not decide in the time limit are listed undecided and not claimed."""
import os, shutil, re
from .common import *
from . import check, special, pipeline, gen
from .sig import Val, leaves

# (function, operand class of lane k, expected class of result lane k)
NAN_FUNCS = ["exp", "exp2", "exp10", "expm1", "log", "log2", "log10", "log1p", "sin", "cos", "tan", "asin", "acos", "atan", "sinh", "cosh", "tanh",
             "asinh", "acosh", "atanh", "cbrt", "erf", "erfc", "sqrt", "tgamma", "lgamma"]
CLAUSES = [(f, "nan", "nan") for f in NAN_FUNCS] + [
    ("log", "neg", "nan"), ("log2", "neg", "nan"), ("log10", "neg", "nan"), ("log1p", "lt-1", "nan"), ("sqrt", "neg", "nan"),
    ("asin", "absgt1", "nan"), ("acos", "absgt1", "nan"), ("acosh", "lt1", "nan"), ("atanh", "absgt1", "nan"),
    ("log", "zero", "-inf"), ("exp", "-inf", "+0"), ("exp", "+inf", "+inf"), ("atan", "+inf", "pio2"), ("atan", "-inf", "-pio2"),
    ("tanh", "+inf", "one"), ("tanh", "-inf", "-one"), ("erf", "+inf", "one"), ("erf", "-inf", "-one"), ("erfc", "+inf", "+0"),
    ("cbrt", "+inf", "+inf"), ("cbrt", "-inf", "-inf"), ("exp", "zero", "one"), ("log", "one", "zero"), ("cos", "zero", "one"),
    ("tgamma", "+0", "+inf"), ("tgamma", "-0", "-inf"),
]


# exact symmetries claimed by the property (odd / even functions)
SYMMETRIES = [("sin", "odd"), ("tan", "odd"), ("asin", "odd"), ("atan", "odd"), ("sinh", "odd"), ("tanh", "odd"), ("asinh", "odd"), ("atanh", "odd"),
              ("erf", "odd"), ("cbrt", "odd"), ("cos", "even"), ("cosh", "even")]


def operand(cls, x, t):
    """C condition constraining float expression x to the operand class"""
    F = "f" if t == "f32" else ""
    W = TYPES[t][2]
    bits = "F2U%d(%s)" % (W, x)
    one = "1.0" + F
    return {"nan": "(%s != %s)" % (x, x), "neg": "(%s < 0.0%s)" % (x, F), "lt-1": "(%s < -%s)" % (x, one), "absgt1": "(%s > %s || %s < -%s)" % (x, one, x, one),
            "lt1": "(%s < %s)" % (x, one), "zero": "(%s == 0.0%s)" % (x, F), "one": "(%s == %s)" % (x, one),
            "+inf": "(%s == %s)" % (bits, "0x7f800000u" if W == 32 else "0x7ff0000000000000ull"),
            "-inf": "(%s == %s)" % (bits, "0xff800000u" if W == 32 else "0xfff0000000000000ull"),
            "+0": "(%s == 0)" % bits, "-0": "(%s == %s)" % (bits, "0x80000000u" if W == 32 else "0x8000000000000000ull")}[cls]


def result(cls, y, t):
    F = "f" if t == "f32" else ""
    W = TYPES[t][2]
    bits = "F2U%d(%s)" % (W, y)
    inf = "0x7f800000u" if W == 32 else "0x7ff0000000000000ull"
    ninf = "0xff800000u" if W == 32 else "0xfff0000000000000ull"
    pio2 = "1.57079632679489661923" + F
    return {"nan": "(%s != %s)" % (y, y), "+inf": "(%s == %s)" % (bits, inf), "-inf": "(%s == %s)" % (bits, ninf), "+0": "(%s == 0.0%s)" % (y, F),
            "zero": "(%s == 0.0%s)" % (y, F), "one": "(%s == 1.0%s)" % (y, F), "-one": "(%s == -1.0%s)" % (y, F),
            "pio2": "(%s == (%s)%s)" % (y, "f32" if W == 32 else "f64", pio2), "-pio2": "(%s == -(%s)%s)" % (y, "f32" if W == 32 else "f64", pio2)}[cls]


def run(tier, seed):
    rep = check.Report("C12", tier, seed)
    wd = os.path.join(BUILD, "run_C12_%d" % os.getpid())
    shutil.rmtree(wd, ignore_errors=True)
    os.makedirs(wd)
    rep.wd = wd
    S = special.Simple(rep)
    arch = "sse2"
    types = ["f32"] if tier == "quick" else ["f32", "f64"]
    funcs = sorted(set(c[0] for c in CLAUSES))
    tu = ["#include <xsimd/xsimd.hpp>"]
    for t in types:
        B = "xsimd::batch<%s, %s>" % (TYPES[t][0], ARCHS[arch][0])
        for f in funcs:
            tu.append('extern "C" void e_%s__%s(%s* r, %s const* x) { *r = xsimd::%s(*x); }' % (f, t, B, B, f))
    bc, fnmap, tsec = pipeline.compile_tu(wd, "c12", "\n".join(tu) + "\n")
    jobs = [{"target": "e_%s__%s" % (f, t), "out": os.path.join(wd, "f_%s_%s.c" % (f, t)), "keep": []} for t in types for f in funcs]
    res = pipeline.run_ll2c(bc, jobs, wd, "c12")
    byname = {j["target"]: (j, r) for j, r in zip(jobs, res)}
    Bt = special.Batch()
    timeout = 240 if tier == "quick" else 1200
    for t in types:
        n = lanes(t, arch)
        for (f, ocls, rcls) in CLAUSES:
            j, r = byname["e_%s__%s" % (f, t)]
            if not r.get("ok"):
                rep.undecided.append({"fn": "%s<%s>" % (f, t), "detail": "not lowered: %s" % r.get("error")})
                continue
            ps = r["target"]["params"]
            rt, xt = ps[0]["type"][:-1].strip(), ps[1]["type"][:-1].strip()
            rv, xv = Val(rt, "R", r), Val(xt, "X", r)
            W = TYPES[t][2]
            H = ["void harness(void) {", "  ll_use_libm();", "  %s R; %s X; u32 IN_k = nondet_u32(); u32 k = IN_k;" % (rt, xt), "  __CPROVER_assume(k < %d);" % n]
            for i, (off, nb, lk, e) in enumerate(leaves(xt, "X", r)):
                H.append("  %s IN_x%d = nondet_%s%d(); %s = IN_x%d;" % ("f%d" % (nb * 8) if lk == "f" else "u%d" % (nb * 8), i, "f" if lk == "f" else "u", nb * 8, e, i))
            xs = ["U2F%d(%s)" % (W, xv.lane(t, i)) for i in range(n)]
            ys = ["U2F%d(%s)" % (W, rv.lane(t, i)) for i in range(n)]
            for i in range(n):
                H.append("  __CPROVER_assume(k != %d || %s);" % (i, operand(ocls, xs[i], t)))
            H.append("  %s(&R, &X);" % r["target"]["name"])
            for i in range(n):
                H.append('  __CPROVER_assert(k != %d || %s, "%s(%s) is %s");' % (i, result(rcls, ys[i], t), f, ocls, rcls))
            H.append('  __CPROVER_assert(0, "canary: end of harness is reachable");\n}')
            title = "%s<%s>: lane %s -> %s (other lanes arbitrary)" % (f, t, ocls, rcls)
            stem = "c%03d_%s_%s" % (len(Bt.items), f, t)
            def done(rr, title=title, f=f, t=t, ocls=ocls, rcls=rcls, n=n):
                S.add(title, "include/xsimd/arch/generic/xsimd_generic_math.hpp / xsimd_generic_trigo.hpp", rr)
                rep.targets[-1]["native_replay"] = lambda fl, vals, rdir: native_clause_replay(vals, rdir, f, t, ocls, rcls, n)
            Bt.add(done,
                   wd, stem, j["out"], "", "\n".join(H) + "\n", r["target"]["name"], unwind=20, attempts=(("concrete", "sat", timeout),),
                   cbmc_flags=["--slice-formula"], plain=True)
    # ---- exact symmetries, bit for bit: f(-X) == -f(X) (odd) / f(-X) == f(X) (even), the whole batch negated, lane k observed.
    # Two runs of the real kernel in one harness; floating arithmetic is the shared, sign-normalised uninterpreted interpretation (two
    # concrete copies of a polynomial kernel do not compare in SAT): a proof holds for every interpretation of + - * / fma, a failure is
    # a verdict only if it replays on the real code.
    for t in types:
        n = lanes(t, arch)
        W = TYPES[t][2]
        sign = "0x80000000u" if W == 32 else "0x8000000000000000ull"
        for (f, parity) in SYMMETRIES:
            if "e_%s__%s" % (f, t) not in byname:
                continue
            j, r = byname["e_%s__%s" % (f, t)]
            if not r.get("ok"):
                continue
            ps = r["target"]["params"]
            rt, xt = ps[0]["type"][:-1].strip(), ps[1]["type"][:-1].strip()
            r1, r2, xv, nv = Val(rt, "R1", r), Val(rt, "R2", r), Val(xt, "X", r), Val(xt, "NX", r)
            H = ["void harness(void) {", "  ll_use_libm();", "  %s R1, R2; %s X, NX; u32 IN_k = nondet_u32(); u32 k = IN_k;" % (rt, xt), "  __CPROVER_assume(k < %d);" % n]
            lv, nlv = leaves(xt, "X", r), leaves(xt, "NX", r)
            for i, ((off, nb, lk, e), (_, _, _, ne)) in enumerate(zip(lv, nlv)):
                ty = ("f%d" if lk == "f" else "u%d") % (nb * 8)
                H.append("  %s IN_x%d = nondet_%s%d(); %s = IN_x%d;" % (ty, i, "f" if lk == "f" else "u", nb * 8, e, i))
                H.append("  %s = %s;" % (ne, ("U2F%d(F2U%d(IN_x%d) ^ %s)" % (W, W, i, sign)) if lk == "f" else ("IN_x%d ^ %s" % (i, sign))))
            for i in range(n):
                H.append("  __CPROVER_assume(k != %d || !spec_isnan_%s(%s));" % (i, t, xv.lane(t, i)))
            H.append("  %s(&R1, &X);" % r["target"]["name"])
            H.append("  %s(&R2, &NX);" % r["target"]["name"])
            for i in range(n):
                a, b = r1.lane(t, i), r2.lane(t, i)
                want = "(%s ^ %s)" % (a, sign) if parity == "odd" else a
                H.append('  __CPROVER_assert(k != %d || %s == %s || (spec_isnan_%s(%s) && spec_isnan_%s(%s)), "%s(-x) == %s%s(x) bit for bit");'
                         % (i, b, want, t, a, t, b, f, "-" if parity == "odd" else "", f))
            H.append('  __CPROVER_assert(0, "canary: end of harness is reachable");\n}')
            title = "%s<%s>: %s symmetry, bit for bit (whole batch negated)" % (f, t, parity)
            stem = "s%03d_%s_%s" % (len(Bt.items), f, t)

            def sdone(rr, title=title, f=f, t=t, parity=parity, n=n):
                S.add(title, "include/xsimd/arch/generic/xsimd_generic_math.hpp / xsimd_generic_trigo.hpp", rr)
                rep.targets[-1]["native_replay"] = lambda fl, vals, rdir: native_symmetry_replay(vals, rdir, f, t, parity, n)
            Bt.add(sdone, wd, stem, j["out"], '#include "spec.h"\n', "\n".join(H) + "\n", r["target"]["name"], unwind=20,
                   attempts=((("ufadd", "z3", 45),) if tier == "quick" else (("ufadd", "z3", 300), ("ufadd", "sat", timeout))), cbmc_flags=["--slice-formula"], plain=True)
    Bt.run(workers=12)
    # clauses that are not decided within the limit are not claimed (and do not make the check fail): they are listed
    for tgt in rep.targets:
        if tgt["status"] in ("undecided", "infra"):
            tgt["status"] = "undecided"
        elif tgt["status"] == "failed" and all("unwind" in f["property"] for f in tgt["failed"]):
            tgt["status"] = "undecided"      # deeper loops than the unwinding bound: not decided here
        elif tgt["status"] == "failed" and tgt.get("mode") != "concrete" and tgt.get("native_replay"):
            # a failure under the uninterpreted arithmetic is a verdict only if its input replays on the real code
            f0 = next((f for f in tgt["failed"] if f.get("trace")), None)
            rdir = os.path.join(wd, "pre_replay_%s" % sha(tgt["dem"])[:8])
            os.makedirs(rdir, exist_ok=True)
            try:
                nat = tgt["native_replay"](f0, special.trace_vals(f0), rdir) if f0 else {"reproduced": None}
            except Exception as e:
                nat = {"reproduced": None, "error": repr(e)}
            if not nat.get("reproduced"):
                tgt["status"] = "undecided"
                tgt["detail"] = "failed only under the uninterpreted arithmetic; the input does not reproduce on the real code"
    und = [t_ for t_ in rep.targets if t_["status"] == "undecided"]
    rep.notes["clauses_not_decided"] = [t_["dem"] for t_ in und]
    rep.targets = [t_ for t_ in rep.targets if t_["status"] != "undecided"]
    rep.notes["clauses"] = len(CLAUSES) * len(types)
    rep.notes["not_claimed"] = ["sincos == (sin, cos)", "pow clauses", "accuracy (C10/C11)",
                                "every clause listed under clauses_not_decided"]
    rep.assumptions += ["architecture sse2 only (the kernels are the architecture-independent generic ones)", "plain CBMC obligations (assertions in a harness), not dfcc contracts",
                        "scalar rem_pio2 fallback: its loops are unwound at most 8 times (unwinding assertions on)"]
    return special.finish_special(rep, "C12")


def native_clause_replay(vals, rdir, f, t, ocls, rcls, n):
    """runs the real xsimd::f on the counterexample lanes and checks the clause natively"""
    import subprocess, struct
    W = TYPES[t][2]
    lanes_bits = {}
    k = 0
    for name, v in vals.items():
        m = re.search(r"IN_x(\d+)$", name)
        if m and v is not None:
            sv = str(v)
            try:
                if re.match(r"^[01]+$", sv) and len(sv) in (32, 64):
                    bits = int(sv, 2)
                else:
                    fv = float(sv.rstrip("f").replace("+", "")) if not sv.lower().startswith(("nan", "-nan", "+nan")) else float("nan")
                    bits = struct.unpack("<I", struct.pack("<f", fv))[0] if W == 32 else struct.unpack("<Q", struct.pack("<d", fv))[0]
            except Exception:
                return {"reproduced": None, "error": "cannot parse counterexample value %r" % sv}
            lanes_bits[int(m.group(1))] = bits
        elif name.endswith("IN_k") and v is not None:
            k = int(re.sub(r"[^0-9]", "", str(v)) or 0)
    T = TYPES[t][0]
    U = "uint32_t" if W == 32 else "uint64_t"
    src = ["#include <xsimd/xsimd.hpp>", "#include <cstdio>", "#include <cstring>", "#include <cstdint>", "#include <cmath>", "typedef float f32; typedef double f64;",
           "static %s U2F(%s u) { %s f; std::memcpy(&f, &u, sizeof f); return f; }" % (T, U, T),
           "static %s F2U(%s f) { %s u; std::memcpy(&u, &f, sizeof u); return u; }" % (U, T, U),
           "#define F2U32 F2U\n#define F2U64 F2U",
           "int main() { %s in[%d] = {%s}; %s x[%d], y[%d]; for (int i = 0; i < %d; ++i) x[i] = U2F(in[i]);" % (U, n, ", ".join("%dull" % lanes_bits.get(i, 0) for i in range(n)), T, n, n, n),
           "  using B = xsimd::batch<%s, xsimd::sse2>; xsimd::%s(B::load_unaligned(x)).store_unaligned(y);" % (T, f),
           "  int k = %d; bool pre = %s; bool post = %s;" % (k, operand(ocls, "x[k]", t), result(rcls, "y[k]", t)),
           '  std::printf("x[k]=%a y[k]=%a pre=%d post=%d\\n", (double)x[k], (double)y[k], (int)pre, (int)post);',
           '  std::printf("{\\"reproduced\\": %s}\\n", (pre && !post) ? "true" : "false"); return (pre && !post) ? 1 : 0; }']
    with open(os.path.join(rdir, "driver.cpp"), "w") as fh:
        fh.write("\n".join(src) + "\n")
    with open(os.path.join(rdir, "build.sh"), "w") as fh:
        fh.write("#!/bin/sh\ncd \"$(dirname \"$0\")\"\nR=${XSIMD_REPO:-/repo}\ng++ -std=c++14 -O2 -w -msse2 -I $R/include driver.cpp -o replay.bin && ./replay.bin\n")
    p = subprocess.run(["sh", os.path.join(rdir, "build.sh")], stdout=subprocess.PIPE, stderr=subprocess.STDOUT, universal_newlines=True, timeout=300)
    try:
        os.unlink(os.path.join(rdir, "replay.bin"))
    except OSError:
        pass
    out = p.stdout.strip()
    rep_ = True if '"reproduced": true' in out else (False if '"reproduced": false' in out else None)
    return {"reproduced": rep_, "output": out[-800:], "lane": k, "lanes": {str(i): hex(b) for i, b in lanes_bits.items()}}


def native_symmetry_replay(vals, rdir, f, t, parity, n):
    """runs the real xsimd::f on the counterexample batch and on its negation and compares lane k bit for bit"""
    import subprocess, struct
    W = TYPES[t][2]
    lanes_bits = {}
    k = 0
    for name, v in vals.items():
        m = re.search(r"IN_x(\d+)$", name)
        if m and v is not None:
            sv = str(v)
            try:
                if re.match(r"^[01]+$", sv) and len(sv) in (32, 64):
                    bits = int(sv, 2)
                else:
                    fv = float(sv.rstrip("f").replace("+", "")) if not sv.lower().startswith(("nan", "-nan", "+nan")) else float("nan")
                    bits = struct.unpack("<I", struct.pack("<f", fv))[0] if W == 32 else struct.unpack("<Q", struct.pack("<d", fv))[0]
            except Exception:
                return {"reproduced": None, "error": "cannot parse counterexample value %r" % sv}
            lanes_bits[int(m.group(1))] = bits
        elif name.endswith("IN_k") and v is not None:
            k = int(re.sub(r"[^0-9]", "", str(v)) or 0)
    T = TYPES[t][0]
    U = "uint32_t" if W == 32 else "uint64_t"
    sign = "0x80000000u" if W == 32 else "0x8000000000000000ull"
    src = ["#include <xsimd/xsimd.hpp>", "#include <cstdio>", "#include <cstring>", "#include <cstdint>", "#include <cmath>",
           "int main() { %s in[%d] = {%s}; %s x[%d], nx[%d], y[%d], ny[%d]; %s yb[%d], nyb[%d];" % (U, n, ", ".join("%dull" % lanes_bits.get(i, 0) for i in range(n)), T, n, n, n, n, U, n, n),
           "  for (int i = 0; i < %d; ++i) { %s b = in[i] ^ %s; std::memcpy(&x[i], &in[i], sizeof b); std::memcpy(&nx[i], &b, sizeof b); }" % (n, U, sign),
           "  using B = xsimd::batch<%s, xsimd::sse2>; xsimd::%s(B::load_unaligned(x)).store_unaligned(y); xsimd::%s(B::load_unaligned(nx)).store_unaligned(ny);" % (T, f, f),
           "  std::memcpy(yb, y, sizeof yb); std::memcpy(nyb, ny, sizeof nyb); int k = %d;" % k,
           "  bool pre = x[k] == x[k]; bool post = (nyb[k] == (%s)) || (y[k] != y[k] && ny[k] != ny[k]);" % ("yb[k] ^ %s" % sign if parity == "odd" else "yb[k]"),
           '  std::printf("x[k]=%a f(x)=%a f(-x)=%a pre=%d post=%d\\n", (double)x[k], (double)y[k], (double)ny[k], (int)pre, (int)post);',
           '  std::printf("{\\"reproduced\\": %s}\\n", (pre && !post) ? "true" : "false"); return (pre && !post) ? 1 : 0; }']
    with open(os.path.join(rdir, "driver.cpp"), "w") as fh:
        fh.write("\n".join(src) + "\n")
    with open(os.path.join(rdir, "build.sh"), "w") as fh:
        fh.write("#!/bin/sh\ncd \"$(dirname \"$0\")\"\nR=${XSIMD_REPO:-/repo}\ng++ -std=c++14 -O2 -w -msse2 -I $R/include driver.cpp -o replay.bin && ./replay.bin\n")
    p = subprocess.run(["sh", os.path.join(rdir, "build.sh")], stdout=subprocess.PIPE, stderr=subprocess.STDOUT, universal_newlines=True, timeout=300)
    try:
        os.unlink(os.path.join(rdir, "replay.bin"))
    except OSError:
        pass
    out = p.stdout.strip()
    rep_ = True if '"reproduced": true' in out else (False if '"reproduced": false' in out else None)
    return {"reproduced": rep_, "output": out[-800:], "lane": k, "lanes": {str(i): hex(b) for i, b in lanes_bits.items()}}
