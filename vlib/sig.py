"""Demangled-signature parsing and ABI-independent access to the lanes of batch-like C values."""
import re
from .common import DEMANGLED_TO_TID, CPP_TO_AID, TYPES, ARCHS, Infra

_OPS = ["<<=", ">>=", "<=>", "<<", ">>", "<=", ">=", "->*", "->", "<", ">", "()"]
_PH = {op: "@%d@" % i for i, op in enumerate(_OPS)}


def _protect(s):
    out, i = [], 0
    while True:
        j = s.find("operator", i)
        if j < 0:
            out.append(s[i:])
            break
        out.append(s[i:j + 8])
        k = j + 8
        for op in _OPS:
            if s.startswith(op, k):
                out.append(_PH[op])
                k += len(op)
                break
        i = k
    return "".join(out)


def _unprotect(s):
    for op, ph in _PH.items():
        s = s.replace(ph, op)
    return s


def split_top(s, sep=","):
    parts, depth, cur = [], 0, []
    for ch in s:
        if ch in "<([{":
            depth += 1
        elif ch in ">)]}":
            depth -= 1
        if ch == sep and depth == 0:
            parts.append("".join(cur).strip())
            cur = []
        else:
            cur.append(ch)
    last = "".join(cur).strip()
    if last or parts:
        parts.append(last)
    return parts


class Sig:
    """ret (may be None), qual (qualified name without trailing template args), targs, params, cls (enclosing class
    for members, with its template args), is_const"""

    def __init__(self, dem):
        self.dem = dem
        s = _protect(dem)
        self.ok = False
        if "{lambda" in s or "(anonymous" in s or "'lambda" in s:
            return
        # parameter list = last top-level (...) group
        s = s.rstrip()
        self.is_const = False
        if s.endswith(" const"):
            self.is_const = True
            s = s[:-6]
        if not s.endswith(")"):
            return
        depth, i = 0, len(s) - 1
        while i >= 0:
            if s[i] in ")>]}":
                depth += 1
            elif s[i] in "(<[{":
                depth -= 1
                if depth == 0:
                    break
            i -= 1
        if i <= 0:
            return
        params = s[i + 1:-1]
        head = s[:i]
        # name = suffix of head after last top-level space
        depth, j = 0, len(head) - 1
        cut = -1
        while j >= 0:
            c = head[j]
            if c in ")>]}":
                depth += 1
            elif c in "(<[{":
                depth -= 1
            elif c == " " and depth == 0:
                cut = j
                break
            j -= 1
        name = head[cut + 1:]
        self.ret = _unprotect(head[:cut]) if cut >= 0 else None
        # conversion operators "operator T" have a space; not supported
        if name.endswith("operator") or "operator " in head:
            return
        # trailing template args of the function itself
        self.targs = []
        if name.endswith(">") and not re.search(r"operator@\d+@$", name):
            depth, k = 0, len(name) - 1
            while k >= 0:
                if name[k] == ">":
                    depth += 1
                elif name[k] == "<":
                    depth -= 1
                    if depth == 0:
                        break
                k -= 1
            self.targs = [_unprotect(x) for x in split_top(name[k + 1:-1])]
            name = name[:k]
        # split class :: member at last top-level ::
        depth, k, pos = 0, len(name) - 1, -1
        while k >= 1:
            c = name[k]
            if c in ">)":
                depth += 1
            elif c in "<(":
                depth -= 1
            elif c == ":" and name[k - 1] == ":" and depth == 0:
                pos = k - 1
                break
            k -= 1
        self.cls = _unprotect(name[:pos]) if pos >= 0 else ""
        self.base = _unprotect(name[pos + 2:]) if pos >= 0 else _unprotect(name)
        self.qual = _unprotect(name)
        self.params = [] if params.strip() in ("", "void") else [_unprotect(p) for p in split_top(params)]
        self.ok = True


_BATCH = re.compile(r"^xsimd::batch<(.+), (xsimd::[^,]+(?:<.*>)?)>$")
_BBOOL = re.compile(r"^xsimd::batch_bool<(.+), (xsimd::[^,]+(?:<.*>)?)>$")
_EMPTY_PREFIXES = ("xsimd::aligned_mode", "xsimd::unaligned_mode", "xsimd::stream_mode", "xsimd::kernel::convert<", "xsimd::batch_constant<",
                   "xsimd::batch_bool_constant<", "std::integral_constant<", "xsimd::index<", "xsimd::detail::", "xsimd::kernel::detail::",
                   "xsimd::types::detail::", "xsimd::as_index", "xsimd::kernel::index<")


class PType:
    """classified C++ parameter / return type"""

    def __init__(self, s):
        self.text = s
        self.kind = "other"
        self.tid = self.aid = None
        self.ref = self.const = self.ptr = False
        self.complex = False
        t = s.strip()
        if t.endswith("&&"):
            self.ref = True
            t = t[:-2].strip()
        elif t.endswith("&"):
            self.ref = True
            t = t[:-1].strip()
        if t.endswith("*"):
            self.ptr = True
            t = t[:-1].strip()
        if t.endswith(" const"):
            self.const = True
            t = t[:-6].strip()
        if t.startswith("const "):
            self.const = True
            t = t[6:].strip()
        self.core = t
        m = _BATCH.match(t)
        mb = _BBOOL.match(t)
        if m or mb:
            el, ar = (m or mb).groups()
            cm = re.match(r"^std::complex<(.+)>$", el)
            if cm:
                el = cm.group(1)
                self.complex = True
            if el in DEMANGLED_TO_TID and ar in CPP_TO_AID:
                self.tid, self.aid = DEMANGLED_TO_TID[el], CPP_TO_AID[ar]
                if el == "bool":
                    self.kind = "other"
                else:
                    self.kind = "bool" if mb else ("cbatch" if self.complex else "batch")
                if self.ptr and not self.ref and self.kind == "batch":
                    self.kind = "rows"      # pointer to an array of batches (haddp rows, transpose matrix)
            return
        cm = re.match(r"^std::complex<(float|double)>$", t)
        if cm and self.ptr:
            self.tid, self.kind, self.complex = DEMANGLED_TO_TID[cm.group(1)], "mem", True     # array of interleaved (re, im) pairs
            return
        if t in CPP_TO_AID or t in ("xsimd::generic", "xsimd::common"):
            self.kind = "tag"
            return
        if t in DEMANGLED_TO_TID:
            self.tid = DEMANGLED_TO_TID[t]
            self.kind = "mem" if self.ptr else "scalar"
            self.is_bool = (t == "bool")
            return
        if t == "void" and self.ptr:
            self.kind = "mem"
            return
        if (t.startswith("xsimd::batch_bool_constant<") or t.startswith("xsimd::batch_constant<")) and self.ref and not self.ptr:
            self.kind = "tag"          # a constant passed by reference: an (empty) object in the ABI, the values are in the type
            return
        if any(t.startswith(p) for p in _EMPTY_PREFIXES) and not self.ref and not self.ptr:
            self.kind = "empty"
            return

    def __repr__(self):
        return "PType(%s:%s,%s,%s)" % (self.kind, self.tid, self.aid, self.text)


# ----------------------------------------------------------------------------------------------------------------
# leaves: flatten a C value (by its ll2c type name) into scalar leaves with byte offsets

_SCALAR = {"u1": (1, "u"), "u8": (1, "u"), "u16": (2, "u"), "u32": (4, "u"), "u64": (8, "u"), "u128": (16, "u"), "f32": (4, "f"), "f64": (8, "f")}
_VEC = re.compile(r"^v(\d+)(u8|u16|u32|u64|f32|f64)$")


def leaves(ctype, expr, tinfo, off=0):
    """-> list of (offset, nbytes, kind 'u'|'f', expr).  tinfo: ll2c job JSON (structs, arrays)."""
    ctype = ctype.strip()
    if ctype in _SCALAR:
        n, k = _SCALAR[ctype]
        return [(off, n, k, expr)]
    m = _VEC.match(ctype)
    if m:
        n, el = int(m.group(1)), m.group(2)
        w, k = _SCALAR[el]
        return [(off + i * w, w, k, "%s.e[%d]" % (expr, i)) for i in range(n)]
    if ctype in tinfo.get("arrays", {}):
        a = tinfo["arrays"][ctype]
        out = []
        for i in range(a["n"]):
            out += leaves(a["elt"], "%s.e[%d]" % (expr, i), tinfo, off + i * a["eltsize"])
        return out
    if ctype in tinfo.get("structs", {}):
        out = []
        for i, f in enumerate(tinfo["structs"][ctype]["fields"]):
            out += leaves(f["type"], "%s.f%d" % (expr, i), tinfo, off + f["offset"])
        return out
    if ctype.endswith("*"):
        return [(off, 8, "p", expr)]
    raise Infra("cannot flatten C type %r" % ctype)


def bits_at(lv, off, nbytes, wrap=None, pure=False):
    """unsigned-integer C expression (width nbytes*8) for bytes [off, off+nbytes) of a flattened value;
    wrap is applied to every leaf lvalue (used for __CPROVER_old, which only accepts side-effect-free lvalues)"""
    U = {1: "u8", 2: "u16", 4: "u32", 8: "u64"}[nbytes]
    if pure:
        # loop invariants must be free of function calls: the bit pattern of a float leaf is read through a pointer cast
        lv = [(o, n, "u" if k == "f" else k, "(*(u%d*)&(%s))" % (n * 8, e) if k == "f" else e) for (o, n, k, e) in lv]
    if wrap:
        lv = [(o, n, k, wrap(e)) for (o, n, k, e) in lv]
    for (o, n, k, e) in lv:
        if o == off and n == nbytes:
            if k == "f":
                return "F2U%d(%s)" % (nbytes * 8, e)
            return "((%s)%s)" % (U, e)
    for (o, n, k, e) in lv:  # inside a wider leaf
        if o <= off and off + nbytes <= o + n:
            src = "F2U%d(%s)" % (n * 8, e) if k == "f" else "((u64)%s)" % e
            return "((%s)(%s >> %d))" % (U, src, 8 * (off - o))
    parts = []  # composed of narrower leaves
    for (o, n, k, e) in lv:
        if off <= o and o + n <= off + nbytes:
            src = "F2U%d(%s)" % (n * 8, e) if k == "f" else e
            parts.append("((u64)%s << %d)" % (src, 8 * (o - off)))
    if parts and sum(n for (o, n, k, e) in lv if off <= o and o + n <= off + nbytes) == nbytes:
        return "((%s)(%s))" % (U, " | ".join(parts))
    raise Infra("no leaves cover bytes [%d,%d)" % (off, off + nbytes))


class Val:
    """A batch-like value living at C expression `expr` of ll2c type `ctype` (by value or through a pointer)."""

    def __init__(self, ctype, expr, tinfo, old=False, native=False, pure=False):
        self.ctype, self.expr, self.tinfo = ctype, expr, tinfo
        self.native = native
        self.pure = pure
        if ctype.endswith("*"):
            self.lv = leaves(ctype[:-1].strip(), "(*%s)" % expr, tinfo)
            self.by_ptr = True
        else:
            self.lv = leaves(ctype, expr, tinfo)
            self.by_ptr = False
        self.old = old
        self.size = max(o + n for (o, n, k, e) in self.lv) if self.lv else 0

    def bits(self, off, nbytes):
        return bits_at(self.lv, off, nbytes, (lambda e: "__CPROVER_old(%s)" % e) if self.old else None, pure=getattr(self, "pure", False))

    def flt(self, tid, i):
        """the floating-point value of lane i as a call-free expression (for loop invariants)"""
        w = TYPES[tid][2] // 8
        for (o, n, k, e) in self.lv:
            if o == i * w and n == w:
                return e if k == "f" else "(*(f%d*)&(%s))" % (w * 8, e)
        raise Infra("no leaf for float lane %d" % i)

    def lane(self, tid, i, base=0):
        w = TYPES[tid][2] // 8
        return self.bits(base + i * w, w)

    def as_old(self):
        if self.native:   # native replay: the pre-state copy is bound to OLD_<name>
            return Val(self.ctype, "OLD_" + self.expr, self.tinfo, old=False, native=True)
        v = Val.__new__(Val)
        v.__dict__.update(self.__dict__)
        v.old = True
        return v
