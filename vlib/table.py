"""Contract table: one row per semantic operation.  A row attaches (by demangled name) to every level of the real
code -- kernel::OP<..>(.., requires_arch<X>), operators / members, public API xsimd::OP -- see gen.classify.
Postconditions are taken from the property statements; specs live in spec/spec.h."""
from .common import TYPES, INT_TYPES, FLOAT_TYPES, ALL_TYPES, ARCHS, lanes
from .gen import Unsupported, bind_ret, conj, UW, Arg
from .sig import PType

ROWS = {}


def arch_align(aid):
    """A::alignment() in bytes: the register width, 8 for emulated<N> (xsimd_emulated_register.hpp)"""
    return 8 if aid.startswith("emu") else ARCHS[aid][1] // 8


class Row:
    def __init__(self, op, kinds, ret, build, types, mode, prop, inline_ops=()):
        self.op, self.kinds, self.ret, self.build, self.types, self.mode, self.prop = op, kinds, ret, build, types, mode, prop
        self.inline_ops = set(inline_ops)   # callees of these operations are inlined instead of replaced by their contract


def row(op, kinds, ret, types=ALL_TYPES, mode="concrete", prop=None, inline_ops=()):
    def deco(f):
        for k in ([kinds] if isinstance(kinds, str) else kinds):
            ROWS.setdefault((op, k), []).append(Row(op, k, ret, f, set(types), mode, prop, inline_ops))
        return f
    return deco


def lookup(fn):
    for r in ROWS.get((fn.op, fn.kinds), []):
        if fn.tid in r.types:
            return r
    return None


def prop_of(fn):
    p = fn.row.prop
    return p(fn) if callable(p) else p


def _arith_prop(fn):
    return "C02" if TYPES[fn.tid][3] == "f" else "C01"


def _bit_prop(fn):
    return "C02" if TYPES[fn.tid][3] == "f" else "C07"


# ----------------------------------------------------------------------------------------------------------------
def lanewise(spec, pre=None, scalar_pre=None):
    def build(ctx):
        R = ctx.ret = bind_ret(ctx, "B")
        ens = []
        for i in range(ctx.n):
            a = [x.lane(i) for x in ctx.args]
            ens.append(ctx.eq(R.lane(i), ctx.spec(spec, *a)))
            if pre:
                ctx.requires.append(ctx.spec(pre, *[x.lane_pre(i) for x in ctx.args]))
        ctx.ensures += conj(ens)
        if scalar_pre:
            ctx.requires += scalar_pre(ctx)
    return build


def _shift_pre(ctx):
    out = []
    for a in ctx.args[1:]:
        if a.kind == "S":
            out.append("(s32)%s >= 0 && (s32)%s < %d" % (a.scalar, a.scalar, ctx.w))
    return out


def _lane_count_pre(ctx):
    out = []
    b = ctx.args[1]
    if b.kind == "B":
        for i in range(ctx.n):
            out.append("%s < %d" % (b.lane_pre(i), ctx.w))
    return out


def _both(*fs):
    def f(ctx):
        r = []
        for g in fs:
            r += g(ctx)
        return r
    return f


# ---- C01 / C02 arithmetic --------------------------------------------------------------------------------------
for _op in ("add", "sub"):
    row(_op, "BB", "B", types=INT_TYPES, prop="C01")(lanewise(_op))
    # floating add/sub are single instructions: wiring proved with a shared uninterpreted adder (two IEEE adders do not compare in SAT)
    row(_op, "BB", "B", types=FLOAT_TYPES, mode="ufadd", prop="C02")(lanewise(_op))
row("mul", "BB", "B", types=INT_TYPES, mode="mul", prop="C01")(lanewise("mul"))
row("mul", "BB", "B", types=FLOAT_TYPES, mode="uf", prop="C02")(lanewise("mul"))
row("div", "BB", "B", types=INT_TYPES, mode="mul", prop="C01")(lanewise("div", pre="divpre"))
row("div", "BB", "B", types=FLOAT_TYPES, mode="uf", prop="C02")(lanewise("div"))
row("mod", "BB", "B", types=INT_TYPES, mode="mul", prop="C01")(lanewise("mod", pre="divpre"))
row("neg", "B", "B", prop=_arith_prop)(lanewise("neg"))
row("abs", "B", "B", prop=_arith_prop)(lanewise("abs"))
row("incr", "B", "B", types=INT_TYPES, prop="C01")(lanewise("incr"))
row("decr", "B", "B", types=INT_TYPES, prop="C01")(lanewise("decr"))
for _op in ("min", "max"):
    row(_op, "BB", "B", types=INT_TYPES, prop="C01")(lanewise(_op))
for _op in ("sadd", "ssub", "avg"):
    row(_op, "BB", "B", types=INT_TYPES, prop="C01")(lanewise(_op))
row("avgr", "BB", "B", types=INT_TYPES, prop="C01")(lanewise("avgr", pre="avgrpre"))
row("sign", "B", "B", types=INT_TYPES, prop="C01")(lanewise("sign"))
for _op in ("fma", "fms", "fnma", "fnms"):
    row(_op, "BBB", "B", types=INT_TYPES, mode="mul", prop="C01")(lanewise(_op))


def _masked(spec):
    def build(ctx):
        R = ctx.ret = bind_ret(ctx, "B")
        x, m = ctx.args
        ctx.requires += conj(m.wf())
        ens = []
        for i in range(ctx.n):
            ens.append("(%s == (%s ? %s : %s))" % (R.lane(i), m.truth(i), ctx.spec(spec, x.lane(i)), x.lane(i)))
        ctx.ensures += conj(ens)
    return build


row("incr_if", "BM", "B", types=INT_TYPES, prop="C01")(_masked("incr"))
row("decr_if", "BM", "B", types=INT_TYPES, prop="C01")(_masked("decr"))

# ---- C07 bitwise / shifts / rotates ----------------------------------------------------------------------------
for _op, _sp in (("bitwise_and", "and"), ("bitwise_or", "or"), ("bitwise_xor", "xor"), ("bitwise_andnot", "andnot")):
    row(_op, "BB", "B", prop=_bit_prop)(lanewise(_sp))
row("bitwise_not", "B", "B", prop=_bit_prop)(lanewise("not"))
_SHIFTS = ("bitwise_lshift", "bitwise_rshift")
row("bitwise_lshift", "BS", "B", types=INT_TYPES, prop="C07")(lanewise("shl", scalar_pre=_shift_pre))
row("bitwise_rshift", "BS", "B", types=INT_TYPES, prop="C07")(lanewise("shr", scalar_pre=_shift_pre))
row("bitwise_lshift", "BB", "B", types=INT_TYPES, prop="C07")(lanewise("shl", scalar_pre=_lane_count_pre))
row("bitwise_rshift", "BB", "B", types=INT_TYPES, prop="C07")(lanewise("shr", scalar_pre=_lane_count_pre))
row("rotl", "BS", "B", types=INT_TYPES, prop="C07", inline_ops=_SHIFTS)(lanewise("rotl", scalar_pre=_shift_pre))
row("rotr", "BS", "B", types=INT_TYPES, prop="C07", inline_ops=_SHIFTS)(lanewise("rotr", scalar_pre=_shift_pre))
row("rotl", "BB", "B", types=INT_TYPES, prop="C07", inline_ops=_SHIFTS)(lanewise("rotl", scalar_pre=_lane_count_pre))
row("rotr", "BB", "B", types=INT_TYPES, prop="C07", inline_ops=_SHIFTS)(lanewise("rotr", scalar_pre=_lane_count_pre))


# ---- C03 comparisons, masks, select ----------------------------------------------------------------------------
def _compare(spec):
    def build(ctx):
        R = ctx.ret = bind_ret(ctx, "M")
        a, b = ctx.args
        ens = [R.is_true_iff(i, ctx.spec(spec, a.lane(i), b.lane(i))) for i in range(ctx.n)]
        ctx.ensures += conj(ens)
        ctx.ensures += conj(R.wf())
    return build


for _op in ("eq", "neq", "lt", "le", "gt", "ge"):
    row(_op, "BB", "M", prop="C03")(_compare(_op))


def _boolop(fmt):
    def build(ctx):
        R = ctx.ret = bind_ret(ctx, "M")
        for a in ctx.args:
            ctx.requires += conj(a.wf())
        ens = [R.is_true_iff(i, fmt.format(*[a.truth(i) for a in ctx.args])) for i in range(ctx.n)]
        ctx.ensures += conj(ens)
        ctx.ensures += conj(R.wf())
    return build


row("bitwise_and", "MM", "M", prop="C03")(_boolop("({0} && {1})"))
row("logical_and", "MM", "M", prop="C03")(_boolop("({0} && {1})"))
row("bitwise_or", "MM", "M", prop="C03")(_boolop("({0} || {1})"))
row("logical_or", "MM", "M", prop="C03")(_boolop("({0} || {1})"))
row("bitwise_xor", "MM", "M", prop="C03")(_boolop("({0} != {1})"))
row("bitwise_andnot", "MM", "M", prop="C03")(_boolop("({0} && !{1})"))
row("bitwise_not", "M", "M", prop="C03")(_boolop("(!{0})"))
row("logical_not", "M", "M", prop="C03")(_boolop("(!{0})"))
row("eq", "MM", "M", prop="C03")(_boolop("({0} == {1})"))
row("neq", "MM", "M", prop="C03")(_boolop("({0} != {1})"))


@row("select", "MBB", "B", prop="C03")
def _select(ctx):
    R = ctx.ret = bind_ret(ctx, "B")
    c, a, b = ctx.args
    ctx.requires += conj(c.wf())
    ens = ["(%s == (%s ? %s : %s))" % (R.lane(i), c.truth(i), a.lane(i), b.lane(i)) for i in range(ctx.n)]
    ctx.ensures += conj(ens)


@row("broadcast", "S", "B", prop="C04")
def _broadcast(ctx):
    R = ctx.ret = bind_ret(ctx, "B")
    v = ctx.args[0]
    ctx.ensures += conj(["(%s == %s)" % (R.lane(i), v.lane(i)) for i in range(ctx.n)])


# ---- C17: scalar overloads share the per-lane specs --------------------------------------------------------------
def scalarwise(spec, pre=None, scalar_pre=None, ret="S"):
    def build(ctx):
        a = [x.lane(0) for x in ctx.args]
        R = ctx.ret = Arg("S", ctx.tid, None, scalar="__CPROVER_return_value")
        if ret == "b":
            ctx.ensures.append("(__CPROVER_return_value == (%s ? 1 : 0))" % ctx.spec(spec, *a))   # a bool is 0 or 1
        else:
            ctx.ensures.append(ctx.eq(R.lane(0), ctx.spec(spec, *a)))
        if pre:
            ctx.requires.append(ctx.spec(pre, *a))
        if scalar_pre:
            ctx.requires += scalar_pre(ctx)
    return build


def _scalar_count_pre(ctx):
    n = ctx.args[1]
    return ["(s64)(%s)%s >= 0 && (s64)(%s)%s < %d" % ("s%d" % n.w, n.scalar, "s%d" % n.w, n.scalar, ctx.w)] if TYPES[n.tid][3] == "s" else ["%s < %d" % (n.scalar, ctx.w)]


for _op, _sp, _n in (("add", "add", 2), ("sub", "sub", 2), ("neg", "neg", 1), ("abs", "abs", 1), ("incr", "incr", 1), ("decr", "decr", 1),
                     ("min", "min", 2), ("max", "max", 2), ("sadd", "sadd", 2), ("ssub", "ssub", 2), ("avg", "avg", 2),
                     ("bitwise_and", "and", 2), ("bitwise_or", "or", 2), ("bitwise_xor", "xor", 2), ("bitwise_andnot", "andnot", 2),
                     ("bitwise_not", "not", 1), ("sign", "sign", 1)):
    row(_op, "S" * _n, "S", types=INT_TYPES, prop="C17")(scalarwise(_sp))
row("avgr", "SS", "S", types=INT_TYPES, prop="C17")(scalarwise("avgr", pre="avgrpre"))
row("mul", "SS", "S", types=INT_TYPES, mode="mul", prop="C17")(scalarwise("mul"))
row("div", "SS", "S", types=INT_TYPES, mode="mul", prop="C17")(scalarwise("div", pre="divpre"))
row("mod", "SS", "S", types=INT_TYPES, mode="mul", prop="C17")(scalarwise("mod", pre="divpre"))
for _op in ("fma", "fms", "fnma", "fnms"):
    row(_op, "SSS", "S", types=INT_TYPES, mode="mul", prop="C17")(scalarwise(_op))
for _op, _sp in (("bitwise_lshift", "shl"), ("bitwise_rshift", "shr"), ("rotl", "rotl"), ("rotr", "rotr")):
    row(_op, "SS", "S", types=INT_TYPES, prop="C17")(scalarwise(_sp, scalar_pre=_scalar_count_pre))
for _op in ("eq", "neq", "lt", "le", "gt", "ge"):
    row(_op, "SS", "b", types=ALL_TYPES, prop="C17")(scalarwise(_op, ret="b"))


@row("incr_if", "Sb", "S", types=INT_TYPES, prop="C17")
def _s_incr_if(ctx):
    x, m = ctx.args
    R = ctx.ret = Arg("S", ctx.tid, None, scalar="__CPROVER_return_value")
    ctx.ensures.append("(%s == ((%s != 0) ? %s : %s))" % (R.lane(0), m.scalar, ctx.spec("incr", x.lane(0)), x.lane(0)))


@row("decr_if", "Sb", "S", types=INT_TYPES, prop="C17")
def _s_decr_if(ctx):
    x, m = ctx.args
    R = ctx.ret = Arg("S", ctx.tid, None, scalar="__CPROVER_return_value")
    ctx.ensures.append("(%s == ((%s != 0) ? %s : %s))" % (R.lane(0), m.scalar, ctx.spec("decr", x.lane(0)), x.lane(0)))


@row("select", "bSS", "S", types=ALL_TYPES, prop="C17")
def _s_select(ctx):
    c, a, b = ctx.args
    R = ctx.ret = Arg("S", ctx.tid, None, scalar="__CPROVER_return_value")
    ctx.ensures.append("(%s == ((%s != 0) ? %s : %s))" % (R.lane(0), c.scalar, a.lane(0), b.lane(0)))


# ---- floating scalar overloads (C17): the same specification functions as the lanes of the batch kernels (C02 / C08) --------------------------
for _op in ("add", "sub"):
    row(_op, "SS", "S", types=FLOAT_TYPES, mode="ufadd", prop="C17")(scalarwise(_op))
for _op in ("mul", "div"):
    row(_op, "SS", "S", types=FLOAT_TYPES, mode="uf", prop="C17")(scalarwise(_op))
for _op in ("neg", "abs"):
    row(_op, "S", "S", types=FLOAT_TYPES, prop="C17")(scalarwise(_op))
for _op in ("is_flint", "is_even", "is_odd"):
    row(_op, "S", "b", types=FLOAT_TYPES, prop="C17")(scalarwise(_op, ret="b"))


def _s_minmax(okspec):
    def build(ctx):
        a = [x.lane(0) for x in ctx.args]
        R = ctx.ret = Arg("S", ctx.tid, None, scalar="__CPROVER_return_value")
        ctx.requires.append(" && ".join("!%s" % ctx.spec("isnan", x) for x in a))
        ctx.ensures.append(ctx.spec(okspec, R.lane(0), *a))
    return build


row("min", "SS", "S", types=FLOAT_TYPES, prop="C17")(_s_minmax("minok"))
row("max", "SS", "S", types=FLOAT_TYPES, prop="C17")(_s_minmax("maxok"))


def _s_float_fma(kind):
    def build(ctx):
        a, b, c = [x.lane(0) for x in ctx.args]
        R = ctx.ret = Arg("S", ctx.tid, None, scalar="__CPROVER_return_value")
        ctx.ensures.append("(" + " || ".join(ctx.eq(R.lane(0), x) for x in _fma_cands(ctx, kind, a, b, c)) + ")")
    return build


for _op in ("fma", "fms", "fnma", "fnms"):
    row(_op, "SSS", "S", types=FLOAT_TYPES, mode="ufadd", prop="C17")(_s_float_fma(_op))


@row("nearbyint_as_int", "S", "S", types=FLOAT_TYPES, prop="C17")
def _s_nbi(ctx):
    dst = {"f32": "i32", "f64": "i64"}[ctx.tid]
    a = ctx.args[0].lane(0)
    r = ctx.spec("nearbyint", a)
    ctx.ret = Arg("S", dst, None, scalar="__CPROVER_return_value")
    ctx.ensures.append("(!(%s) || (u%d)__CPROVER_return_value == %s)" % (conv_pre(ctx.tid, dst, r), TYPES[dst][2], conv_expr(ctx.tid, dst, r)))


# ---- clip: scalar overload and batch kernel against one specification (C17) ----------------------------------------------------------
def _clip_expect(ctx, x, lo, hi):
    return "(%s ? %s : (%s ? %s : %s))" % (ctx.spec("lt", x, lo), lo, ctx.spec("lt", hi, x), hi, x)


def _clip_pre(ctx, x, lo, hi):
    pre = [ctx.spec("le", lo, hi)]            # the library asserts ordered bounds
    if ctx.isfloat:
        pre += ["!%s" % ctx.spec("isnan", v) for v in (x, lo, hi)]
    return pre


@row("clip", "BBB", "B", prop="C17")
def _clip_batch(ctx):
    R = ctx.ret = bind_ret(ctx, "B")
    x, lo, hi = ctx.args
    ens = []
    for i in range(ctx.n):
        ctx.requires += _clip_pre(ctx, x.lane_pre(i), lo.lane_pre(i), hi.lane_pre(i))
        e = _clip_expect(ctx, x.lane(i), lo.lane(i), hi.lane(i))
        ens.append(ctx.spec("samenum", R.lane(i), e) if ctx.isfloat else "(%s == %s)" % (R.lane(i), e))
    ctx.ensures += conj(ens, 4)


@row("clip", "SSS", "S", prop="C17")
def _clip_scalar(ctx):
    x, lo, hi = [a.lane(0) for a in ctx.args]
    R = ctx.ret = Arg("S", ctx.tid, None, scalar="__CPROVER_return_value")
    ctx.requires += _clip_pre(ctx, x, lo, hi)
    e = _clip_expect(ctx, x, lo, hi)
    ctx.ensures.append(ctx.spec("samenum", R.lane(0), e) if ctx.isfloat else "(%s == %s)" % (R.lane(0), e))


# ---- C02: floating point -------------------------------------------------------------------------------------------
def _predicate(spec):
    def build(ctx):
        R = ctx.ret = bind_ret(ctx, "M")
        a = ctx.args[0]
        ctx.ensures += conj([R.is_true_iff(i, ctx.spec(spec, a.lane(i))) for i in range(ctx.n)])
        ctx.ensures += conj(R.wf())
    return build


for _op in ("isnan", "isinf", "isfinite", "is_flint", "is_even", "is_odd"):
    row(_op, "B", "M", types=FLOAT_TYPES, prop="C02")(_predicate(_op))
row("sqrt", "B", "B", types=FLOAT_TYPES, mode="uf", prop="C02")(lanewise("sqrt"))
row("copysign", "BB", "B", types=FLOAT_TYPES, prop="C02")(lanewise("copysign"))
row("bitofsign", "B", "B", types=FLOAT_TYPES, prop="C02")(lanewise("bitofsign"))


def _relational(okspec, pre_nonan=False, pre_nonzero=False):
    """postcondition given as a relation spec_<ok>(result, args...)"""
    def build(ctx):
        R = ctx.ret = bind_ret(ctx, "B")
        ens = []
        for i in range(ctx.n):
            a = [x.lane(i) for x in ctx.args]
            ens.append(ctx.spec(okspec, R.lane(i), *a))
            if pre_nonan:
                ctx.requires.append(" && ".join("!%s" % ctx.spec("isnan", x) for x in a))
            if pre_nonzero:
                ctx.requires.append("!%s && !%s" % (ctx.spec("iszero", a[0]), ctx.spec("isnan", a[0])))
        ctx.ensures += conj(ens)
    return build


row("nextafter", "BB", "B", types=FLOAT_TYPES, prop="C02")(_relational("nextafterok"))
row("min", "BB", "B", types=FLOAT_TYPES, prop="C02")(_relational("minok", pre_nonan=True))
row("max", "BB", "B", types=FLOAT_TYPES, prop="C02")(_relational("maxok", pre_nonan=True))
row("sign", "B", "B", types=FLOAT_TYPES, prop="C02")(_relational("signok"))
row("signnz", "B", "B", types=FLOAT_TYPES, prop="C02")(_relational("signnzok", pre_nonzero=True))


def _fma_cands(ctx, kind, a, b, c):
    """bit patterns the fused / unfused evaluation of one fma-family operation may return (any operand-sign placement of the
    mathematically equal forms clang emits); a, b, c are bit-pattern expressions"""
    T, W = ctx.T, ctx.w
    F = lambda x: "U2F%d(%s)" % (W, x)
    U = lambda x: "F2U%d(%s)" % (W, x)
    na, nb, nc = ctx.spec("neg", a), ctx.spec("neg", b), ctx.spec("neg", c)
    mul = lambda x, y: "FMUL_%s(%s, %s)" % (T, F(x), F(y))
    fma = lambda x, y, z: U("LL_FMA_%s(%s, %s, %s)" % (T, F(x), F(y), F(z)))
    add = lambda x, y: U("FADD_%s(%s, %s)" % (T, x, y))
    sub = lambda x, y: U("FSUB_%s(%s, %s)" % (T, x, y))
    if kind == "fma":      # a*b + c
        return [fma(a, b, c), add(mul(a, b), F(c))]
    if kind == "fms":      # a*b - c
        return [fma(a, b, nc), sub(mul(a, b), F(c)), add(mul(a, b), F(nc))]
    if kind == "fnma":     # -(a*b) + c
        return [fma(na, b, c), fma(a, nb, c), add(mul(na, b), F(c)), sub(F(c), mul(a, b))]
    return [fma(na, b, nc), fma(a, nb, nc), sub(mul(na, b), F(c))]   # fnms: -(a*b) - c


def _float_fma(kind):
    """result is the fused or the unfused evaluation (any operand-sign placement of the mathematically equal forms)"""
    def build(ctx):
        R = ctx.ret = bind_ret(ctx, "B")
        ens = []
        for i in range(ctx.n):
            a, b, c = [x.lane(i) for x in ctx.args]
            ens.append("(" + " || ".join(ctx.eq(R.lane(i), x) for x in _fma_cands(ctx, kind, a, b, c)) + ")")
        ctx.ensures += conj(ens, 2)
    return build


for _op in ("fma", "fms", "fnma", "fnms"):
    row(_op, "BBB", "B", types=FLOAT_TYPES, mode="ufadd", prop="C02")(_float_fma(_op))


@row("ldexp", "BB", "B", types=FLOAT_TYPES, mode="uf", prop="C02")
def _ldexp(ctx):
    """x * 2^e rounded once (IEEE multiplication by the exactly representable power of two), for exponents whose power of two is a normal
    number; outside that range the generic kernel's exponent-field arithmetic does not denote a power of two (see DESIGN 7)"""
    x, e = ctx.args
    R = ctx.ret = bind_ret(ctx, "B")
    W = ctx.w
    bias, nmb, S = (127, 23, "s32") if W == 32 else (1023, 52, "s64")
    ens = []
    for i in range(ctx.n):
        ei = "(%s)%s" % (S, e.lane(i))
        ctx.requires.append("(%s >= %d && %s <= %d)" % ("(%s)%s" % (S, e.lane_pre(i)), 1 - bias, "(%s)%s" % (S, e.lane_pre(i)), bias))
        p2 = "((u%d)((u%d)(%s + %d) << %d))" % (W, W, ei, bias, nmb)
        ens.append(ctx.eq(R.lane(i), ctx.spec("mul", x.lane(i), p2)))
    ctx.ensures += conj(ens, 2)


@row("frexp", "BB", "B", types=FLOAT_TYPES, prop="C02")
def _frexp(ctx):
    """x = m * 2^e with 0.5 <= |m| < 1 for normal x (m keeps sign and fraction of x, its exponent field is that of 0.5; e is the unbiased
    exponent + 1); zero gives (zero, 0).  Subnormal, infinite and NaN lanes are outside the contract (DESIGN 7: the generic kernel ignores them)"""
    x, e = ctx.args
    R = ctx.ret = bind_ret(ctx, "B")
    W = ctx.w
    bias, nmb, S, one = (127, 23, "s32", "(u32)1") if W == 32 else (1023, 52, "s64", "(u64)1")
    emax = 2 * bias + 1
    ens = []
    # case 0: zero and normal lanes (the domain the generic kernel handles).  case 1: every lane value -- what the property states; the
    # clauses for the remaining classes are the ones the C library fixes: NaN stays NaN, an infinity is returned unchanged, a subnormal
    # gives a mantissa in [0.5, 1) (known finding: the generic kernel ignores these classes)
    ctx.variants = 2
    full = (ctx.variant or 0) == 1
    for i in range(ctx.n):
        xi, xp = x.lane(i), x.lane_pre(i)
        field = lambda v: "((%s >> %d) & %d)" % (v, nmb, emax)
        if full:
            mag = "(%s & (u%d)~(%s << %d))" % (R.lane(i), W, one, W - 1)
            half, onebits = "((u%d)%d << %d)" % (W, bias - 1, nmb), "((u%d)%d << %d)" % (W, bias, nmb)
            ens.append("(!%s || %s)" % (ctx.spec("isnan", xi), ctx.spec("isnan", R.lane(i))))
            ens.append("(!(%s == %d && !%s) || %s == %s)" % (field(xi), emax, ctx.spec("isnan", xi), R.lane(i), xi))
            ens.append("(!(%s == 0 && !%s) || (%s >= %s && %s < %s))" % (field(xi), ctx.spec("iszero", xi), mag, half, mag, onebits))
            continue
        ctx.requires.append("(%s || (%s >= 1 && %s <= %d))" % (ctx.spec("iszero", xp), field(xp), field(xp), emax - 1))
        keep = "(u%d)~((u%d)%d << %d)" % (W, W, emax, nmb)
        m = "((%s & %s) | ((u%d)%d << %d))" % (xi, keep, W, bias - 1, nmb)
        ens.append("(%s ? (%s && %s == 0) : (%s == %s && (%s)%s == (%s)%s - %d))" % (
            ctx.spec("iszero", xi), ctx.spec("iszero", R.lane(i)), e.lane(i), R.lane(i), m, S, e.lane(i), S, field(xi), bias - 1))
    ctx.ensures += conj(ens, 2)
    ctx.assigns.append("*%s" % e.cname)


# ---- C08: rounding -------------------------------------------------------------------------------------------------------
def _rounding(spec):
    def build(ctx):
        R = ctx.ret = bind_ret(ctx, "B")
        a = ctx.args[0]
        ctx.ensures += conj([ctx.spec("samenum", R.lane(i), ctx.spec(spec, a.lane(i))) for i in range(ctx.n)])
    return build


for _op, _sp in (("ceil", "ceil"), ("floor", "floor"), ("trunc", "trunc"), ("round", "round"), ("nearbyint", "nearbyint"), ("rint", "nearbyint")):
    row(_op, "B", "B", types=FLOAT_TYPES, prop="C08")(_rounding(_sp))


# ---- C03: reductions of masks ------------------------------------------------------------------------------------------------
def _maskred(kind):
    def build(ctx):
        m = ctx.args[0]
        ctx.requires += conj(m.wf())
        t = [m.truth(i) for i in range(ctx.n)]
        if kind == "any":
            e = "(__CPROVER_return_value == ((%s) ? 1 : 0))" % " || ".join(t)
        elif kind == "all":
            e = "(__CPROVER_return_value == ((%s) ? 1 : 0))" % " && ".join(t)
        elif kind == "none":
            e = "(__CPROVER_return_value == ((%s) ? 0 : 1))" % " || ".join(t)
        elif kind == "count":
            e = "(__CPROVER_return_value == (%s))" % " + ".join("(u64)(%s ? 1 : 0)" % x for x in t)
        else:  # mask
            e = "(__CPROVER_return_value == (%s))" % " | ".join("((u64)(%s ? 1 : 0) << %d)" % (x, i) for i, x in enumerate(t))
        ctx.ensures.append(e)
    return build


for _op in ("any", "all", "none", "count", "mask"):
    row(_op, "M", "S", prop="C03")(_maskred(_op))


def _pick(arg, idx_expr, n):
    """lane selected by a run-time index expression (a chain of conditionals over the constant lane accessors)"""
    e = arg.lane(n - 1)
    for k in range(n - 2, -1, -1):
        e = "((%s) == %d ? %s : %s)" % (idx_expr, k, arg.lane(k), e)
    return e


@row("get", "BS", "S", prop="C04")
def _get(ctx):
    """get(i) addresses the same lane numbering as loads, stores and insert<i>"""
    x, i = ctx.args
    ctx.requires.append("(u64)%s < %d" % (i.scalar, ctx.n))
    R = ctx.ret = Arg("S", ctx.tid, None, scalar="__CPROVER_return_value")
    ctx.ensures.append("(%s == %s)" % (R.lane(0), _pick(x, "(u64)%s" % i.scalar, ctx.n)))


@row("get", "MS", "S", prop="C03")
def _get_bool(ctx):
    m, i = ctx.args
    ctx.requires.append("(u64)%s < %d" % (i.scalar, ctx.n))
    ctx.requires += conj(m.wf())
    e = "0"
    for k in range(ctx.n - 1, -1, -1):
        e = "(((u64)%s) == %d ? (%s ? 1 : 0) : %s)" % (i.scalar, k, m.truth(k), e)
    ctx.ensures.append("((__CPROVER_return_value != 0) == (%s != 0))" % e)


@row("batch_bool_cast", ("M", "MM"), "M", prop="C03")
def _bool_cast(ctx):
    """Boolean batches keep their lanes through batch_bool_cast (equal-width element types)"""
    dst = None
    if len(ctx.args) >= 2:
        dst = ctx.args[1].tid
    elif ctx.fn.sig.ret:
        dst = PType(ctx.fn.sig.ret).tid
    if not dst or TYPES[dst][2] != ctx.w:
        raise Unsupported("batch_bool_cast between different widths")
    R = ctx.ret = bind_ret(ctx, "M", tid=dst)
    a = ctx.args[0]
    ctx.requires += conj(a.wf())
    ctx.ensures += conj([R.is_true_iff(i, a.truth(i)) for i in range(ctx.n)])
    ctx.ensures += conj(R.wf())


@row("from_mask", ("MS", "S"), "M", prop="C03")
def _from_mask(ctx):
    """inverse of mask(): lane i is true iff bit i of the argument is set, for every mask value of the batch's width"""
    R = ctx.ret = bind_ret(ctx, "M")
    m = [a for a in ctx.args if a.kind == "S"][0]
    if ctx.n < 64:
        ctx.requires.append("(u64)%s < ((u64)1 << %d)" % (m.scalar, ctx.n))     # the kernels assert an in-bound mask
    ctx.ensures += conj([R.is_true_iff(i, "(((u64)%s >> %d) & 1)" % (m.scalar, i)) for i in range(ctx.n)])
    ctx.ensures += conj(R.wf())


# ---- C04: loads and stores move exactly one register ---------------------------------------------------------------------------
def _mem_arg(ctx):
    m = [a for a in ctx.args if a.kind == "P"]
    b = [a for a in ctx.args if a.kind == "B"]
    if len(m) != 1 or m[0].tid != ctx.tid:
        raise Unsupported("converting or multi-pointer memory operation")
    return m[0], (b[0] if b else None)


def _bool_load(aligned):
    """batch_bool loaded from an array of bool: lane i is true iff mem[i]; exactly size bytes are read"""
    def build(ctx):
        R = ctx.ret = bind_ret(ctx, "M")
        mem = [a for a in ctx.args if a.kind == "P"][0]
        ctx.mem_bytes = {mem.cname: ctx.n}
        ctx.requires.append("__CPROVER_r_ok(%s, %d)" % (mem.scalar, ctx.n))
        ctx.requires += conj(["%s[%d] <= 1" % (mem.scalar, i) for i in range(ctx.n)])      # object representation of bool
        if aligned:
            ctx.requires.append("(LL_ADDR(%s) %% %d) == 0" % (mem.scalar, arch_align(ctx.aid)))
        ctx.ensures += conj([R.is_true_iff(i, "%s[%d] != 0" % (mem.scalar, i)) for i in range(ctx.n)])
        ctx.ensures += conj(R.wf())
    return build


def _bool_store(ctx):
    """exact inverse: mem[i] = lane i ? 1 : 0, exactly size bytes written"""
    mem = [a for a in ctx.args if a.kind == "P"][0]
    m = [a for a in ctx.args if a.kind == "M"][0]
    ctx.mem_bytes = {mem.cname: ctx.n}
    ctx.requires.append("__CPROVER_w_ok(%s, %d)" % (mem.scalar, ctx.n))
    ctx.requires += conj(m.wf())
    ctx.ensures += conj(["(%s[%d] == (%s ? 1 : 0))" % (mem.scalar, i, m.truth(i)) for i in range(ctx.n)])
    ctx.assigns.append("__CPROVER_object_upto(%s, %d)" % (mem.scalar, ctx.n))


def _cplx_elem(mem, w, k, old=False):
    e = "((f%d*)%s)[%d]" % (w, mem.scalar, k)
    if old:
        e = "__CPROVER_old(%s)" % e
    return "F2U%d(%s)" % (w, e)


def _cplx_load(aligned):
    """interleaved load: memory element i = (re, im) goes to lane i of the real and of the imaginary part; 2*size*sizeof(T) bytes are read"""
    def build(ctx):
        mem = [a for a in ctx.args if a.kind == "P"]
        if len(mem) != 1 or not getattr(mem[0], "complex", False) or mem[0].tid != ctx.tid:
            raise Unsupported("not an interleaved complex load of the batch's own element type")
        mem = mem[0]
        R = ctx.ret = bind_ret(ctx, "C")
        nbytes = 2 * ctx.n * ctx.w // 8
        ctx.mem_bytes = {mem.cname: nbytes}
        ctx.requires.append("__CPROVER_r_ok(%s, %d)" % (mem.scalar, nbytes))
        if aligned:
            ctx.requires.append("(LL_ADDR(%s) %% %d) == 0" % (mem.scalar, arch_align(ctx.aid)))
        ens = []
        for i in range(ctx.n):
            ens.append("(%s == %s)" % (R.re(i), _cplx_elem(mem, ctx.w, 2 * i)))
            ens.append("(%s == %s)" % (R.im(i), _cplx_elem(mem, ctx.w, 2 * i + 1)))
        ctx.ensures += conj(ens)
        ctx.uses_float = True
    return build


def _cplx_store(aligned):
    def build(ctx):
        mem = [a for a in ctx.args if a.kind == "P"]
        z = [a for a in ctx.args if a.kind == "C"]
        if len(mem) != 1 or len(z) != 1 or not getattr(mem[0], "complex", False) or mem[0].tid != ctx.tid:
            raise Unsupported("not an interleaved complex store of the batch's own element type")
        mem, z = mem[0], z[0]
        nbytes = 2 * ctx.n * ctx.w // 8
        ctx.mem_bytes = {mem.cname: nbytes}
        ctx.requires.append("__CPROVER_w_ok(%s, %d)" % (mem.scalar, nbytes))
        if aligned:
            ctx.requires.append("(LL_ADDR(%s) %% %d) == 0" % (mem.scalar, arch_align(ctx.aid)))
        ens = []
        for i in range(ctx.n):
            ens.append("(%s == %s)" % (_cplx_elem(mem, ctx.w, 2 * i), z.re(i)))
            ens.append("(%s == %s)" % (_cplx_elem(mem, ctx.w, 2 * i + 1), z.im(i)))
        ctx.ensures += conj(ens)
        ctx.assigns.append("__CPROVER_object_upto(%s, %d)" % (mem.scalar, nbytes))
        ctx.uses_float = True
    return build


row("load_complex_aligned", "P", "C", types=FLOAT_TYPES, prop="C16")(_cplx_load(True))
row("load_complex_unaligned", "P", "C", types=FLOAT_TYPES, prop="C16")(_cplx_load(False))
row("store_complex_aligned", "PC", "V", types=FLOAT_TYPES, prop="C16")(_cplx_store(True))
row("store_complex_unaligned", "PC", "V", types=FLOAT_TYPES, prop="C16")(_cplx_store(False))
row("store_aligned", "CP", "V", types=FLOAT_TYPES, prop="C16")(_cplx_store(True))
row("store_unaligned", "CP", "V", types=FLOAT_TYPES, prop="C16")(_cplx_store(False))


def _load(aligned):
    def build(ctx):
        if ctx.fn.cls_type is not None and ctx.fn.cls_type.kind == "bool":
            return _bool_load(aligned)(ctx)
        if ctx.fn.cls_type is not None and ctx.fn.cls_type.kind == "cbatch":
            return _cplx_load(aligned)(ctx)
        pm = [a for a in ctx.args if a.kind == "P"]
        if len(pm) == 1 and pm[0].tid and pm[0].tid != ctx.tid and not getattr(pm[0], "complex", False) and not getattr(pm[0], "is_bool", False):
            return _conv_load(aligned, pm[0])(ctx)
        R = ctx.ret = bind_ret(ctx, "B")
        mem, _ = _mem_arg(ctx)
        nbytes = ctx.n * ctx.w // 8
        ctx.mem_bytes = {mem.cname: nbytes}
        ctx.requires.append("__CPROVER_r_ok(%s, %d)" % (mem.scalar, nbytes))
        if aligned:
            ctx.requires.append("(LL_ADDR(%s) %% %d) == 0" % (mem.scalar, arch_align(ctx.aid)))
        ctx.ensures += conj(["(%s == %s)" % (R.lane(i), mem.elem(i)) for i in range(ctx.n)])
    return build


def _conv_load(aligned, mem):
    """converting load (load_as): lane i = static_cast<T>(mem[i]) whenever representable; exactly size * sizeof(From) bytes are read"""
    def build(ctx):
        src, dst = mem.tid, ctx.tid
        R = ctx.ret = bind_ret(ctx, "B")
        nbytes = ctx.n * TYPES[src][2] // 8
        ctx.mem_bytes = {mem.cname: nbytes}
        ctx.requires.append("__CPROVER_r_ok(%s, %d)" % (mem.scalar, nbytes))
        if aligned:
            ctx.requires.append("(LL_ADDR(%s) %% %d) == 0" % (mem.scalar, arch_align(ctx.aid)))
        ens = []
        for i in range(ctx.n):
            x = mem.elem(i)
            pre = conv_pre(src, dst, x)
            e = "(%s == %s)" % (R.lane(i), conv_expr(src, dst, x))
            ens.append("(!(%s) || %s)" % (pre, e) if pre else e)
        ctx.ensures += conj(ens, 4)
        ctx.uses_float = True
    return build


def _conv_store(aligned, mem, b):
    def build(ctx):
        src, dst = ctx.tid, mem.tid
        nbytes = ctx.n * TYPES[dst][2] // 8
        ctx.mem_bytes = {mem.cname: nbytes}
        ctx.requires.append("__CPROVER_w_ok(%s, %d)" % (mem.scalar, nbytes))
        if aligned and ctx.fn.level != "kernel":
            # the generic converting kernel stores through a scalar copy loop and is the implementation of the unaligned form as well
            # (store_unaligned forwards to it): alignment is a precondition of the public aligned form only
            ctx.requires.append("(LL_ADDR(%s) %% %d) == 0" % (mem.scalar, arch_align(ctx.aid)))
        ens = []
        for i in range(ctx.n):
            x = b.lane(i)
            pre = conv_pre(src, dst, x)
            e = "(%s == %s)" % (mem.elem(i), conv_expr(src, dst, x))
            ens.append("(!(%s) || %s)" % (pre, e) if pre else e)
        ctx.ensures += conj(ens, 4)
        ctx.assigns.append("__CPROVER_object_upto(%s, %d)" % (mem.scalar, nbytes))
        ctx.uses_float = True
    return build


def _store(aligned):
    def build(ctx):
        pm = [a for a in ctx.args if a.kind == "P"]
        pb = [a for a in ctx.args if a.kind == "B"]
        if len(pm) == 1 and len(pb) == 1 and pm[0].tid and pm[0].tid != ctx.tid and not getattr(pm[0], "complex", False) and not getattr(pm[0], "is_bool", False):
            return _conv_store(aligned, pm[0], pb[0])(ctx)
        mem, b = _mem_arg(ctx)
        nbytes = ctx.n * ctx.w // 8
        ctx.mem_bytes = {mem.cname: nbytes}
        ctx.requires.append("__CPROVER_w_ok(%s, %d)" % (mem.scalar, nbytes))
        if aligned:
            ctx.requires.append("(LL_ADDR(%s) %% %d) == 0" % (mem.scalar, arch_align(ctx.aid)))
        ctx.ensures += conj(["(%s == %s)" % (mem.elem(i), b.lane(i)) for i in range(ctx.n)])
        # frame: exactly size*sizeof(T) bytes starting at the pointer
        ctx.assigns.append("__CPROVER_object_upto(%s, %d)" % (mem.scalar, nbytes))
    return build


def _gs_args(ctx):
    mem = [a for a in ctx.args if a.kind == "P"][0]
    idx = ctx.args[-1]
    if mem.tid != ctx.tid or getattr(mem, "is_bool", False):
        raise Unsupported("converting gather / scatter")
    if TYPES[idx.tid][3] == "f" or TYPES[idx.tid][2] != ctx.w:
        raise Unsupported("index batch of a different width")
    signed = TYPES[idx.tid][3] == "s"
    # number of addressable elements: the whole range of an 8-bit index; a window of 8 elements for wider index types
    K = (128 if signed else 256) if ctx.w == 8 else 8
    ctx.mem_bytes = {mem.cname: K * ctx.w // 8}
    for i in range(ctx.n):
        if not (ctx.w == 8 and not signed):
            ctx.requires.append("%s < %d" % (idx.lane_pre(i), K))      # (a negative signed index is >= 2^(w-1) as a bit pattern)
    return mem, idx, K


def _elem_at(mem, ctx, e):
    x = "%s[%s]" % (mem.scalar, e)
    return "F2U%d(%s)" % (ctx.w, x) if ctx.isfloat else "((%s)%s)" % (UW[ctx.w], x)


@row("gather", ("BPB", "PB"), "B", prop="C04")
def _gather(ctx):
    """lane i = src[index[i]]: exactly the indexed elements are read (the object holds the addressable elements and nothing more)"""
    R = ctx.ret = bind_ret(ctx, "B")
    mem, idx, K = _gs_args(ctx)
    ctx.requires.append("__CPROVER_r_ok(%s, %d)" % (mem.scalar, K * ctx.w // 8))
    ctx.ensures += conj(["(%s == %s)" % (R.lane(i), _elem_at(mem, ctx, idx.lane(i))) for i in range(ctx.n)], 4)


@row("scatter", "BPB", "V", prop="C04")
def _scatter(ctx):
    """dst[index[i]] = lane i in lane order (the highest lane wins among equal indices); every other element keeps its value"""
    src = ctx.args[0]
    import os as _os
    if ctx.w == 8 and _os.environ.get("VERIF_TIER_ACTIVE") == "quick":
        raise Unsupported("8-bit scatter (256-element window, > 200 s per function) is proved in the thorough tier only")
    mem, idx, K = _gs_args(ctx)
    nb = K * ctx.w // 8
    ctx.requires.append("__CPROVER_w_ok(%s, %d)" % (mem.scalar, nb))
    ens = []
    for k in range(K):
        e = mem.elem(k, old=True)
        for i in range(ctx.n):
            e = "(%s == %d ? %s : %s)" % (idx.lane(i), k, src.lane(i), e)
        ens.append("(%s == %s)" % (mem.elem(k), e))
    ctx.ensures += conj(ens, 2)
    ctx.assigns.append("__CPROVER_object_upto(%s, %d)" % (mem.scalar, nb))


row("load_aligned", "PM", "M", prop="C04")(_bool_load(True))
row("load_unaligned", "PM", "M", prop="C04")(_bool_load(False))
for _o in ("store", "store_aligned", "store_unaligned"):
    row(_o, "MP", "V", prop="C04")(_bool_store)
def _load_prop(fn):
    if fn.cls_type is not None and fn.cls_type.kind == "cbatch":
        return "C16"
    pm = [p for p in fn.ptypes if p.kind == "mem"]
    if len(pm) == 1 and pm[0].tid and fn.tid and pm[0].tid != fn.tid and not getattr(pm[0], "is_bool", False) and not getattr(pm[0], "complex", False):
        return "C06"        # converting forms (load_as / store_as)
    return "C04"


row("load_aligned", "P", "B", prop=_load_prop)(_load(True))
row("load_unaligned", "P", "B", prop=_load_prop)(_load(False))
for _k in ("PB", "BP"):
    row("store_aligned", _k, "V", prop=_load_prop)(_store(True))
    row("store_unaligned", _k, "V", prop=_load_prop)(_store(False))


# ---- C06: conversions ------------------------------------------------------------------------------------------------------------
from .sig import PType


def conv_expr(src, dst, a):
    """C expression for static_cast<dst>(value with bit pattern a of type src), as a bit pattern of dst"""
    ks, kd = TYPES[src][3], TYPES[dst][3]
    ws, wd = TYPES[src][2], TYPES[dst][2]
    if ks != "f" and kd != "f":
        v = "(s%d)%s" % (ws, a) if ks == "s" else a
        return "((u%d)%s)" % (wd, v)
    uf = "__CPROVER_uninterpreted_specuf_conv_%s_%s" % (src, dst)      # SPECCONV: the cast itself, or (lemmas of C13) an uninterpreted symbol
    if ks != "f" and kd == "f":
        v = "(s%d)%s" % (ws, a) if ks == "s" else a
        return "SPECCONV(%s, F2U%d((f%d)%s), %s)" % (uf, wd, wd, v, a)
    if ks == "f" and kd != "f":
        x = "U2F%d(%s)" % (ws, a)
        return "SPECCONV(%s, %s, %s)" % (uf, "((u%d)(s%d)%s)" % (wd, wd, x) if kd == "s" else "((u%d)%s)" % (wd, x), a)
    return "SPECCONV(%s, F2U%d((f%d)U2F%d(%s)), %s)" % (uf, wd, wd, ws, a, a)


def conv_pre(src, dst, a):
    """source value representable in the destination (only float -> integer needs it)"""
    if TYPES[src][3] == "f" and TYPES[dst][3] != "f":
        x = "U2F%d(%s)" % (TYPES[src][2], a)
        wd = TYPES[dst][2]
        if TYPES[dst][3] == "s":
            return "(%s == %s && %s > -0x1p%d - 1.0 && %s < 0x1p%d)" % (x, x, x, wd - 1, x, wd - 1)
        return "(%s == %s && %s > -1.0 && %s < 0x1p%d)" % (x, x, x, x, wd)
    return None


def _dst_tid(ctx):
    if len(ctx.args) >= 2 and ctx.args[1].kind == "B":
        return ctx.args[1].tid
    if ctx.fn.sig.ret:
        p = PType(ctx.fn.sig.ret)
        if p.tid:
            return p.tid
    raise Unsupported("destination type of conversion unknown")


def _cast(kind):
    def build(ctx):
        src = ctx.tid
        dst = {"to_int": {"f32": "i32", "f64": "i64"}, "to_float": {"i32": "f32", "i64": "f64"}}.get(kind, {}).get(src) or _dst_tid(ctx)
        if TYPES[src][2] != TYPES[dst][2]:
            raise Unsupported("conversion between different widths")
        R = ctx.ret = bind_ret(ctx, "B", tid=dst)
        a = ctx.args[0]
        ens = []
        for i in range(ctx.n):
            x = a.lane(i)
            if kind == "bitwise_cast":
                ens.append("(%s == %s)" % (R.lane(i), x))
            else:
                # per lane, "whenever the source value is representable in the destination type": no precondition on the whole register,
                # a caller may convert unrepresentable lanes and discard them (generic trunc does)
                pre = conv_pre(src, dst, x)
                if pre:
                    ctx.lane_pre = getattr(ctx, "lane_pre", []) + [pre]
                    ens.append("(!(%s) || %s == %s)" % (pre, R.lane(i), conv_expr(src, dst, x)))
                else:
                    ens.append("(%s == %s)" % (R.lane(i), conv_expr(src, dst, x)))
        ctx.ensures += conj(ens)
        ctx.uses_float = True
    return build


for _k in ("B", "BB"):
    # emulated conversions convert out-of-range lanes with the hardware's defined "integer indefinite" result and discard them:
    # nested batch_cast calls are inlined (their contracts only speak of representable values)
    row("batch_cast", _k, "B", prop="C06", inline_ops=("batch_cast",))(_cast("batch_cast"))
    row("bitwise_cast", _k, "B", prop="C06")(_cast("bitwise_cast"))
row("to_int", "B", "B", types=FLOAT_TYPES, prop="C06")(_cast("to_int"))
row("to_float", "B", "B", types=["i32", "i64"], prop="C06")(_cast("to_float"))


@row("nearbyint_as_int", "B", "B", types=FLOAT_TYPES, prop="C08")
def _nbi(ctx):
    dst = {"f32": "i32", "f64": "i64"}[ctx.tid]
    R = ctx.ret = bind_ret(ctx, "B", tid=dst)
    a = ctx.args[0]
    ens = []
    for i in range(ctx.n):
        r = ctx.spec("nearbyint", a.lane(i))
        ctx.lane_pre = getattr(ctx, "lane_pre", []) + [conv_pre(ctx.tid, dst, r)]
        ens.append("(!(%s) || %s == %s)" % (conv_pre(ctx.tid, dst, r), R.lane(i), conv_expr(ctx.tid, dst, r)))
    ctx.ensures += conj(ens)


# ---- C05: data movement = pure lane permutation with the documented map -------------------------------------------------------------
import re as _re


def _targ_int(fn, k=0):
    m = _re.match(r"^(\d+)", fn.sig.targs[k]) if len(fn.sig.targs) > k else None
    if not m:
        raise Unsupported("no integral template argument")
    return int(m.group(1))


def _const_pack(fn):
    """values of a batch_constant<...> parameter (an empty class in the ABI): parsed from the demangled signature"""
    for p in fn.ptypes:
        if p.kind == "empty" and p.core.startswith("xsimd::batch_constant<"):
            inner = p.core[len("xsimd::batch_constant<"):-1]
            parts = [x.strip() for x in inner.split(",")]
            vals = []
            for x in parts:
                m = _re.match(r"^\(?(?:[a-z ]+\))?(-?\d+)[ul]*$", x)
                if m:
                    vals.append(int(m.group(1)))
            return vals
    raise Unsupported("no batch_constant parameter")


def _bool_pack(fn):
    """values of a batch_bool_constant<T, A, true, false, ...> parameter"""
    for p in fn.ptypes:
        if p.kind in ("empty", "tag") and p.core.startswith("xsimd::batch_bool_constant<"):
            parts = [x.strip() for x in p.core[len("xsimd::batch_bool_constant<"):-1].split(",")]
            vals = [1 if x == "true" else 0 for x in parts if x in ("true", "false")]
            return vals
    raise Unsupported("no batch_bool_constant parameter")


@row("select", "BB", "B", prop="C19")
def _select_const(ctx):
    """select with a compile-time mask returns what the run-time select returns for the converted mask"""
    pack = _bool_pack(ctx.fn)
    if len(pack) != ctx.n:
        raise Unsupported("constant mask of %d lanes for a batch of %d" % (len(pack), ctx.n))
    a, b = ctx.args
    R = ctx.ret = bind_ret(ctx, "B")
    ctx.ensures += conj(["(%s == %s)" % (R.lane(i), (a if pack[i] else b).lane(i)) for i in range(ctx.n)])


def _permute(fmap):
    """fmap(ctx, i) -> C expression (bit pattern) of output lane i"""
    def build(ctx):
        R = ctx.ret = bind_ret(ctx, "B")
        ctx.ensures += conj(["(%s == %s)" % (R.lane(i), fmap(ctx, i)) for i in range(ctx.n)])
    return build


def _zip(hi):
    def f(ctx, i):
        x, y = ctx.args[0], ctx.args[1]
        src = i // 2 + (ctx.n // 2 if hi else 0)
        return (x if i % 2 == 0 else y).lane(src)
    return f


row("zip_lo", "BB", "B", prop="C05")(_permute(_zip(False)))
row("zip_hi", "BB", "B", prop="C05")(_permute(_zip(True)))


def _pick(arg, idx_expr, n):
    """lane selected by a run-time index expression (a chain of conditionals over the constant lane accessors)"""
    e = arg.lane(n - 1)
    for k in range(n - 2, -1, -1):
        e = "((%s) == %d ? %s : %s)" % (idx_expr, k, arg.lane(k), e)
    return e


@row("swizzle", "BB", "B", prop="C05")
def _swizzle_dyn(ctx):
    x, idx = ctx.args
    if TYPES[idx.tid][2] != ctx.w:
        raise Unsupported("index batch of different width")
    R = ctx.ret = bind_ret(ctx, "B")
    for i in range(ctx.n):
        ctx.requires.append("%s < %d" % (idx.lane(i), ctx.n))
    ctx.ensures += conj(["(%s == %s)" % (R.lane(i), _pick(x, idx.lane(i), ctx.n)) for i in range(ctx.n)], 2)


@row("swizzle", "B", "B", prop="C05")
def _swizzle_const(ctx):
    pack = _const_pack(ctx.fn)
    if len(pack) < ctx.n:
        raise Unsupported("constant pack not recognised")
    pack = pack[-ctx.n:]
    x = ctx.args[0]
    R = ctx.ret = bind_ret(ctx, "B")
    if any(v >= ctx.n for v in pack):
        raise Unsupported("index out of range in pack")
    ctx.ensures += conj(["(%s == %s)" % (R.lane(i), x.lane(pack[i])) for i in range(ctx.n)])


@row("shuffle", "BB", "B", prop="C05")
def _shuffle_const(ctx):
    pack = _const_pack(ctx.fn)[-ctx.n:]
    x, y = ctx.args
    R = ctx.ret = bind_ret(ctx, "B")
    if len(pack) < ctx.n or any(v >= 2 * ctx.n for v in pack):
        raise Unsupported("constant pack not recognised")
    ctx.ensures += conj(["(%s == %s)" % (R.lane(i), x.lane(pack[i]) if pack[i] < ctx.n else y.lane(pack[i] - ctx.n)) for i in range(ctx.n)])


def _rot(sign):
    def build(ctx):
        N = _targ_int(ctx.fn)
        x = ctx.args[0]
        R = ctx.ret = bind_ret(ctx, "B")
        ctx.ensures += conj(["(%s == %s)" % (R.lane(i), x.lane((i + sign * N) % ctx.n)) for i in range(ctx.n)])
    return build


row("rotate_left", "B", "B", prop="C05")(_rot(+1))
row("rotate_right", "B", "B", prop="C05")(_rot(-1))


def _slide(left):
    def build(ctx):
        N = _targ_int(ctx.fn)     # bytes
        x = ctx.args[0]
        R = ctx.ret = bind_ret(ctx, "B")
        total = ctx.n * ctx.w // 8
        ens = []
        for j in range(total):   # byte-wise: shift by N bytes with zero fill
            src = j - N if left else j + N
            rb = R.val.bits(j, 1)
            ens.append("(%s == %s)" % (rb, x.val.bits(src, 1) if 0 <= src < total else "0"))
        ctx.ensures += conj(ens)
    return build


row("slide_left", "B", "B", prop="C05")(_slide(True))
row("slide_right", "B", "B", prop="C05")(_slide(False))


@row("insert", "BS", "B", prop="C05")
def _insert(ctx):
    I = None
    for p in ctx.fn.ptypes:
        m = _re.search(r"index<(\d+)", p.core) or _re.search(r"integral_constant<unsigned long, (\d+)", p.core)
        if m:
            I = int(m.group(1))
    if I is None:
        raise Unsupported("insert position not found")
    if I >= ctx.n:
        raise Unsupported("insert position outside the batch")
    x, v = ctx.args
    R = ctx.ret = bind_ret(ctx, "B")
    ctx.ensures += conj(["(%s == %s)" % (R.lane(i), v.lane(i) if i == I else x.lane(i)) for i in range(ctx.n)])


@row("extract_pair", "BBS", "B", prop="C05")
def _extract_pair(ctx):
    x, y, k = ctx.args
    R = ctx.ret = bind_ret(ctx, "B")
    n = ctx.n
    ctx.requires.append("%s < %d" % (k.scalar, n))     # the library asserts i < size
    ens = []
    for i in range(n):
        # window [y[k..n-1], x[0..k-1]]
        e = x.lane(i)  # k == n : all from x? (window starts past y)
        cases = []
        for kk in range(n):
            src = (y.lane(i + kk) if i + kk < n else x.lane(i + kk - n))
            cases.append((kk, src))
        expr = cases[-1][1]
        for kk, src in reversed(cases[:-1]):
            expr = "(%s == %d ? %s : %s)" % (k.scalar, kk, src, expr)
        ens.append("(%s == %s)" % (R.lane(i), expr))
    ctx.ensures += conj(ens, 2)


def _compress_expand(kind):
    def build(ctx):
        x, m = ctx.args
        R = ctx.ret = bind_ret(ctx, "B")
        ctx.requires += conj(m.wf())
        n = ctx.n
        cnt = ["0"]
        for i in range(n):
            cnt.append("(%s + (%s ? 1 : 0))" % (cnt[-1], m.truth(i)))   # number of true lanes before lane i+1
        ens = []
        if kind == "compress":
            # out[k] = x[i] for the k-th true lane i (order preserved); remaining lanes zero
            for k in range(n):
                e = "0"
                for i in range(n - 1, -1, -1):
                    e = "((%s && %s == %d) ? %s : %s)" % (m.truth(i), cnt[i], k, x.lane(i), e)
                ens.append("(%s == %s)" % (R.lane(k), e))
        else:
            # out[i] = mask[i] ? x[number of true lanes before i] : 0
            for i in range(n):
                ens.append("(%s == (%s ? %s : 0))" % (R.lane(i), m.truth(i), _pick(x, cnt[i], n)))
        ctx.ensures += conj(ens, 1)
    return build


row("compress", "BM", "B", prop="C05")(_compress_expand("compress"))
row("expand", "BM", "B", prop="C05")(_compress_expand("expand"))


# ---- C09: reductions use every lane exactly once ---------------------------------------------------------------------------------------
@row("reduce_add", "B", "S", types=INT_TYPES, prop="C09")
def _reduce_add_int(ctx):
    x = ctx.args[0]
    R = ctx.ret = Arg("S", ctx.tid, None, scalar="__CPROVER_return_value")
    C = "u32" if ctx.w <= 32 else "u64"
    ctx.ensures.append("(%s == (%s)(%s))" % (R.lane(0), UW[ctx.w], " + ".join("(%s)%s" % (C, x.lane(i)) for i in range(ctx.n))))


@row("reduce_add", "B", "S", types=FLOAT_TYPES, prop="C09")
def _reduce_add_float(ctx):
    # exactness clause of the statement: when every partial sum is representable (here: integer lanes of magnitude <= 8), the result
    # is the exact sum whatever the association order -- a skipped or doubled lane changes it
    x = ctx.args[0]
    R = ctx.ret = Arg("S", ctx.tid, None, scalar="__CPROVER_return_value")
    W = ctx.w
    F = lambda i: "U2F%d(%s)" % (W, x.lane(i))
    if ctx.n >= 8:
        # wide registers: the exactness clause is beyond the solvers (7+ chained adders); the routing clause is decided instead, with the
        # exact fact x + (+0.0) == x of the abstract adder: at most one lane differs from +0.0 (and is not a NaN), and the result is
        # numerically that lane -- a lane that is skipped, or counted twice, changes it
        for i in range(ctx.n):
            ctx.requires.append("!spec_isnan_%s(%s)" % (ctx.tid, x.lane(i)))
        ctx.requires.append("(%s) <= 1" % " + ".join("(%s != 0)" % x.lane(i) for i in range(ctx.n)))
        ctx.ensures.append("(__CPROVER_return_value == U2F%d(%s))" % (W, " | ".join(x.lane(i) for i in range(ctx.n))))
        ctx.mode = "ufadd"
        ctx.uses_float = True
        return
    for i in range(ctx.n):
        ctx.requires.append("(%s >= -8.0 && %s <= 8.0 && %s == (f%d)(s32)%s)" % (F(i), F(i), F(i), W, F(i)))
    ctx.ensures.append("(__CPROVER_return_value == (f%d)(%s))" % (W, " + ".join("(s32)%s" % F(i) for i in range(ctx.n))))
    ctx.uses_float = True


def _reduce_minmax(kind):
    def build(ctx):
        x = ctx.args[0]
        R = ctx.ret = Arg("S", ctx.tid, None, scalar="__CPROVER_return_value")
        r = R.lane(0)
        if ctx.isfloat:
            for i in range(ctx.n):
                ctx.requires.append("!%s" % ctx.spec("isnan", x.lane(i)))
            cmp = "le" if kind == "max" else "ge"
            ctx.ensures.append("(%s)" % " || ".join("%s == %s" % (r, x.lane(i)) for i in range(ctx.n)))
            ctx.ensures += conj([ctx.spec(cmp, x.lane(i), r) for i in range(ctx.n)])
        else:
            cmp = "le" if kind == "max" else "ge"
            ctx.ensures.append("(%s)" % " || ".join("%s == %s" % (r, x.lane(i)) for i in range(ctx.n)))
            ctx.ensures += conj([ctx.spec(cmp, x.lane(i), r) for i in range(ctx.n)])
    return build


row("reduce_max", "B", "S", prop="C09")(_reduce_minmax("max"))
row("reduce_min", "B", "S", prop="C09")(_reduce_minmax("min"))
# hadd is the generic integer reduction kernel reduce_add forwards to
ROWS.setdefault(("hadd", "B"), []).extend(ROWS[("reduce_add", "B")])


# ---- C16: complex batches, exact clauses -------------------------------------------------------------------------------------------------
def _cplx_lanewise(re_spec, im_spec):
    def build(ctx):
        R = ctx.ret = bind_ret(ctx, "C")
        ens = []
        for i in range(ctx.n):
            ra = [a.re(i) for a in ctx.args]
            ia = [a.im(i) for a in ctx.args]
            ens.append(ctx.eq(R.re(i), ctx.spec(re_spec, *ra) if re_spec else ra[0]))
            ens.append(ctx.eq(R.im(i), ctx.spec(im_spec, *ia) if im_spec else ia[0]))
        ctx.ensures += conj(ens)
    return build


row("add", "CC", "C", types=FLOAT_TYPES, mode="ufadd", prop="C16")(_cplx_lanewise("add", "add"))
row("sub", "CC", "C", types=FLOAT_TYPES, mode="ufadd", prop="C16")(_cplx_lanewise("sub", "sub"))
row("neg", "C", "C", types=FLOAT_TYPES, prop="C16")(_cplx_lanewise("neg", "neg"))
row("conj", "C", "C", types=FLOAT_TYPES, prop="C16")(_cplx_lanewise(None, "neg"))


def _any_of(ctx, r, cands):
    return "(" + " || ".join(ctx.eq(r, x) for x in cands) + ")"


@row("mul", "CC", "C", types=FLOAT_TYPES, mode="ufadd", prop="C16")
def _cplx_mul(ctx):
    """textbook product, evaluated in floating point: re = a.re*b.re - a.im*b.im, im = a.re*b.im + a.im*b.re, the inner product
    rounded once, the outer product-and-sum fused or not (the latitude C02 gives the fma family)"""
    R = ctx.ret = bind_ret(ctx, "C")
    a, b = ctx.args
    ens = []
    for i in range(ctx.n):
        t_re = ctx.spec("mul", a.im(i), b.im(i))
        t_im = ctx.spec("mul", a.im(i), b.re(i))
        ens.append(_any_of(ctx, R.re(i), _fma_cands(ctx, "fms", a.re(i), b.re(i), t_re)))
        ens.append(_any_of(ctx, R.im(i), _fma_cands(ctx, "fma", a.re(i), b.im(i), t_im)))
    ctx.ensures += conj(ens, 2)


@row("div", "CC", "C", types=FLOAT_TYPES, mode="ufadd", prop="C16")
def _cplx_div(ctx):
    """textbook quotient (a + ib)/(c + id) = ((ac + bd) + i(bc - ad)) / (cc + dd), every operation rounded once"""
    R = ctx.ret = bind_ret(ctx, "C")
    x, y = ctx.args
    ens = []
    S = ctx.spec
    for i in range(ctx.n):
        a, b, c, d = x.re(i), x.im(i), y.re(i), y.im(i)
        e = S("add", S("mul", c, c), S("mul", d, d))
        ens.append(ctx.eq(R.re(i), S("div", S("add", S("mul", c, a), S("mul", d, b)), e)))
        ens.append(ctx.eq(R.im(i), S("div", S("sub", S("mul", c, b), S("mul", d, a)), e)))
    ctx.ensures += conj(ens, 2)


def _cplx_fma(outer_neg, in_re, in_im):
    """complex fused forms: re = [-] fms(x.re, y.re, IN_RE(x.im, y.im, z.re)), im = [-] fma(x.re, y.im, IN_IM(x.im, y.re, z.im)),
    every real fma-family operation fused or not"""
    def build(ctx):
        R = ctx.ret = bind_ret(ctx, "C")
        x, y, z = ctx.args
        ens = []
        for i in range(ctx.n):
            re_c = [o for t in _fma_cands(ctx, in_re, x.im(i), y.im(i), z.re(i)) for o in _fma_cands(ctx, "fms", x.re(i), y.re(i), t)]
            im_c = [o for t in _fma_cands(ctx, in_im, x.im(i), y.re(i), z.im(i)) for o in _fma_cands(ctx, "fma", x.re(i), y.im(i), t)]
            if outer_neg:
                re_c = [ctx.spec("neg", o) for o in re_c]
                im_c = [ctx.spec("neg", o) for o in im_c]
            ens.append(_any_of(ctx, R.re(i), re_c))
            ens.append(_any_of(ctx, R.im(i), im_c))
        ctx.ensures += conj(ens, 2)
    return build


row("fma", "CCC", "C", types=FLOAT_TYPES, mode="ufadd", prop="C16")(_cplx_fma(False, "fms", "fma"))
row("fms", "CCC", "C", types=FLOAT_TYPES, mode="ufadd", prop="C16")(_cplx_fma(False, "fma", "fms"))
row("fnma", "CCC", "C", types=FLOAT_TYPES, mode="ufadd", prop="C16")(_cplx_fma(True, "fma", "fms"))
row("fnms", "CCC", "C", types=FLOAT_TYPES, mode="ufadd", prop="C16")(_cplx_fma(True, "fms", "fma"))


def _cplx_part(which):
    def build(ctx):
        R = ctx.ret = bind_ret(ctx, "B")
        z = ctx.args[0]
        ctx.ensures += conj(["(%s == %s)" % (R.lane(i), z.re(i) if which == "re" else z.im(i)) for i in range(ctx.n)])
    return build


row("real", "C", "B", types=FLOAT_TYPES, prop="C16")(_cplx_part("re"))
row("imag", "C", "B", types=FLOAT_TYPES, prop="C16")(_cplx_part("im"))


def _cplx_cmp(neq):
    def build(ctx):
        R = ctx.ret = bind_ret(ctx, "M")
        a, b = ctx.args
        ens = []
        for i in range(ctx.n):
            both = "(%s && %s)" % (ctx.spec("eq", a.re(i), b.re(i)), ctx.spec("eq", a.im(i), b.im(i)))
            ens.append(R.is_true_iff(i, ("!" + both) if neq else both))
        ctx.ensures += conj(ens)
        ctx.ensures += conj(R.wf())
    return build


row("eq", "CC", "M", types=FLOAT_TYPES, prop="C16")(_cplx_cmp(False))
row("neq", "CC", "M", types=FLOAT_TYPES, prop="C16")(_cplx_cmp(True))


# ---- arrays of batches: haddp (C09) and transpose (C05) ------------------------------------------------------------------------------------
@row("haddp", "R", "B", types=FLOAT_TYPES, prop="C09")
def _haddp(ctx):
    rows_ = ctx.args[0]
    R = ctx.ret = bind_ret(ctx, "B")
    n, W = ctx.n, ctx.w
    regbytes = n * W // 8
    ctx.mem_bytes = {rows_.cname: n * regbytes}
    ctx.requires.append("__CPROVER_r_ok(%s, %d)" % (rows_.scalar, n * regbytes))
    ens = []
    if n * (n - 1) <= 24:
        # exactness clause (as reduce_add): integer-valued lanes of small magnitude, lane i of the result is the exact sum of row i
        for i in range(n):
            ri = rows_.row(i)
            F = lambda j: "U2F%d(%s)" % (W, ri.lane(j))
            for j in range(n):
                ctx.requires.append("(%s >= -4.0 && %s <= 4.0 && %s == (f%d)(s32)%s)" % (F(j), F(j), F(j), W, F(j)))
            ens.append("(U2F%d(%s) == (f%d)(%s))" % (W, R.lane(i), W, " + ".join("(s32)%s" % F(j) for j in range(n))))
    else:
        # routing clause for the wide registers (the exactness clause is beyond the solvers there), as a case split over the rows: in case k
        # every row but k is +0.0 and at most one lane of row k is not +0.0 (and is not a NaN).  Lane i of the result is then numerically
        # the only candidate of row i (the OR of the row's bit patterns): every lane is counted exactly once, in its own row and in no other.
        k = ctx.variant or 0
        ctx.variants = n
        cnt = []
        init = []
        for i in range(n):
            ri = rows_.row(i)
            for j in range(n):
                if i == k:
                    cnt.append("(%s != 0)" % ri.lane(j))
                    ctx.requires.append("!spec_isnan_%s(%s)" % (ctx.tid, ri.lane(j)))
                else:
                    ctx.requires.append("%s == 0" % ri.lane(j))
            if i != k:
                init += ["{M}[%d] = 0;" % b for b in range(i * regbytes, (i + 1) * regbytes)]
            ens.append("(U2F%d(%s) == U2F%d(%s))" % (W, R.lane(i), W, (" | ".join(ri.lane(j) for j in range(n))) if i == k else "0"))
        ctx.requires.append("(%s) <= 1" % " + ".join(cnt))
        ctx.harness_mem_init = {rows_.cname: init}
        ctx.mode = "ufaddc" if n >= 16 else "ufadd"      # x + (+0.0) is an exact fact of the abstract adder: no adder is bit-blasted
    ctx.ensures += conj(ens, 2)
    ctx.uses_float = True


@row("transpose", "RR", "V", prop="C05")
def _transpose(ctx):
    m, e = ctx.args
    n, W = ctx.n, ctx.w
    regbytes = n * W // 8
    ctx.mem_bytes = {m.cname: n * regbytes, e.cname: 0}
    ctx.requires.append("__CPROVER_w_ok(%s, %d)" % (m.scalar, n * regbytes))
    ctx.requires.append("%s == %s + %d" % (e.scalar, m.scalar, n))
    ens = []
    for i in range(n):
        for j in range(n):
            ens.append("(%s == %s)" % (m.row(i).lane(j), m.row(j, old=True).lane(i)))
    ctx.ensures += conj(ens, 8)
    ctx.assigns.append("__CPROVER_object_upto(%s, %d)" % (m.scalar, n * regbytes))
    ctx.end_is_begin_plus = (e.cname, m.cname, n)
