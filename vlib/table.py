"""Contract table: one row per semantic operation.  A row attaches (by demangled name) to every level of the real
code -- kernel::OP<..>(.., requires_arch<X>), operators / members, public API xsimd::OP -- see gen.classify.
Postconditions are taken from the property statements; specs live in spec/spec.h."""
from .common import TYPES, INT_TYPES, FLOAT_TYPES, ALL_TYPES, ARCHS, lanes
from .gen import Unsupported, bind_ret, conj, UW

ROWS = {}


class Row:
    def __init__(self, op, kinds, ret, build, types, mode, prop):
        self.op, self.kinds, self.ret, self.build, self.types, self.mode, self.prop = op, kinds, ret, build, types, mode, prop


def row(op, kinds, ret, types=ALL_TYPES, mode="concrete", prop=None):
    def deco(f):
        for k in ([kinds] if isinstance(kinds, str) else kinds):
            ROWS[(op, k)] = Row(op, k, ret, f, set(types), mode, prop)
        return f
    return deco


def lookup(fn):
    r = ROWS.get((fn.op, fn.kinds))
    if r and fn.tid in r.types:
        return r
    return None


def prop_of(fn):
    p = fn.row.prop
    return p(fn) if callable(p) else p


def _arith_prop(fn):
    return "C02" if TYPES[fn.tid][3] == "f" else "C01"


def _bit_prop(fn):
    return "C02" if TYPES[fn.tid][3] == "f" else "C07"


# ----------------------------------------------------------------------------------------------------------------
def lanewise(spec, pre=None, scalar_pre=None):
    def build(ctx):
        R = ctx.ret = bind_ret(ctx, "B")
        ens = []
        for i in range(ctx.n):
            a = [x.lane(i) for x in ctx.args]
            ens.append(ctx.eq(R.lane(i), ctx.spec(spec, *a)))
            if pre:
                ctx.requires.append(ctx.spec(pre, *a))
        ctx.ensures += conj(ens)
        if scalar_pre:
            ctx.requires += scalar_pre(ctx)
    return build


def _shift_pre(ctx):
    out = []
    for a in ctx.args[1:]:
        if a.kind == "S":
            out.append("(s32)%s >= 0 && (s32)%s < %d" % (a.scalar, a.scalar, ctx.w))
    return out


def _lane_count_pre(ctx):
    out = []
    b = ctx.args[1]
    if b.kind == "B":
        for i in range(ctx.n):
            out.append("%s < %d" % (b.lane(i), ctx.w))
    return out


def _both(*fs):
    def f(ctx):
        r = []
        for g in fs:
            r += g(ctx)
        return r
    return f


# ---- C01 / C02 arithmetic --------------------------------------------------------------------------------------
for _op in ("add", "sub"):
    row(_op, "BB", "B", prop=_arith_prop)(lanewise(_op))
row("mul", "BB", "B", types=INT_TYPES, mode="mul", prop="C01")(lanewise("mul"))
row("mul", "BB", "B", types=FLOAT_TYPES, mode="uf", prop="C02")(lanewise("mul"))
row("div", "BB", "B", types=INT_TYPES, mode="uf", prop="C01")(lanewise("div", pre="divpre"))
row("div", "BB", "B", types=FLOAT_TYPES, mode="uf", prop="C02")(lanewise("div"))
row("mod", "BB", "B", types=INT_TYPES, mode="uf", prop="C01")(lanewise("mod", pre="divpre"))
row("neg", "B", "B", prop=_arith_prop)(lanewise("neg"))
row("abs", "B", "B", prop=_arith_prop)(lanewise("abs"))
row("incr", "B", "B", types=INT_TYPES, prop="C01")(lanewise("incr"))
row("decr", "B", "B", types=INT_TYPES, prop="C01")(lanewise("decr"))
for _op in ("min", "max"):
    row(_op, "BB", "B", types=INT_TYPES, prop="C01")(lanewise(_op))
for _op in ("sadd", "ssub", "avg"):
    row(_op, "BB", "B", types=INT_TYPES, prop="C01")(lanewise(_op))
row("avgr", "BB", "B", types=INT_TYPES, prop="C01")(lanewise("avgr", pre="avgrpre"))
row("sign", "B", "B", types=INT_TYPES, prop="C01")(lanewise("sign"))
for _op in ("fma", "fms", "fnma", "fnms"):
    row(_op, "BBB", "B", types=INT_TYPES, mode="mul", prop="C01")(lanewise(_op))


def _masked(spec):
    def build(ctx):
        R = ctx.ret = bind_ret(ctx, "B")
        x, m = ctx.args
        ctx.requires += conj(m.wf())
        ens = []
        for i in range(ctx.n):
            ens.append("(%s == (%s ? %s : %s))" % (R.lane(i), m.truth(i), ctx.spec(spec, x.lane(i)), x.lane(i)))
        ctx.ensures += conj(ens)
    return build


row("incr_if", "BM", "B", types=INT_TYPES, prop="C01")(_masked("incr"))
row("decr_if", "BM", "B", types=INT_TYPES, prop="C01")(_masked("decr"))

# ---- C07 bitwise / shifts / rotates ----------------------------------------------------------------------------
for _op, _sp in (("bitwise_and", "and"), ("bitwise_or", "or"), ("bitwise_xor", "xor"), ("bitwise_andnot", "andnot")):
    row(_op, "BB", "B", prop=_bit_prop)(lanewise(_sp))
row("bitwise_not", "B", "B", prop=_bit_prop)(lanewise("not"))
row("bitwise_lshift", "BS", "B", types=INT_TYPES, prop="C07")(lanewise("shl", scalar_pre=_shift_pre))
row("bitwise_rshift", "BS", "B", types=INT_TYPES, prop="C07")(lanewise("shr", scalar_pre=_shift_pre))
row("bitwise_lshift", "BB", "B", types=INT_TYPES, prop="C07")(lanewise("shl", scalar_pre=_lane_count_pre))
row("bitwise_rshift", "BB", "B", types=INT_TYPES, prop="C07")(lanewise("shr", scalar_pre=_lane_count_pre))
row("rotl", "BS", "B", types=INT_TYPES, prop="C07")(lanewise("rotl", scalar_pre=_shift_pre))
row("rotr", "BS", "B", types=INT_TYPES, prop="C07")(lanewise("rotr", scalar_pre=_shift_pre))
row("rotl", "BB", "B", types=INT_TYPES, prop="C07")(lanewise("rotl", scalar_pre=_lane_count_pre))
row("rotr", "BB", "B", types=INT_TYPES, prop="C07")(lanewise("rotr", scalar_pre=_lane_count_pre))


# ---- C03 comparisons, masks, select ----------------------------------------------------------------------------
def _compare(spec):
    def build(ctx):
        R = ctx.ret = bind_ret(ctx, "M")
        a, b = ctx.args
        ens = [R.is_true_iff(i, ctx.spec(spec, a.lane(i), b.lane(i))) for i in range(ctx.n)]
        ctx.ensures += conj(ens)
        ctx.ensures += conj(R.wf())
    return build


for _op in ("eq", "neq", "lt", "le", "gt", "ge"):
    row(_op, "BB", "M", prop="C03")(_compare(_op))


def _boolop(fmt):
    def build(ctx):
        R = ctx.ret = bind_ret(ctx, "M")
        for a in ctx.args:
            ctx.requires += conj(a.wf())
        ens = [R.is_true_iff(i, fmt.format(*[a.truth(i) for a in ctx.args])) for i in range(ctx.n)]
        ctx.ensures += conj(ens)
        ctx.ensures += conj(R.wf())
    return build


row("bitwise_and", "MM", "M", prop="C03")(_boolop("({0} && {1})"))
row("logical_and", "MM", "M", prop="C03")(_boolop("({0} && {1})"))
row("bitwise_or", "MM", "M", prop="C03")(_boolop("({0} || {1})"))
row("logical_or", "MM", "M", prop="C03")(_boolop("({0} || {1})"))
row("bitwise_xor", "MM", "M", prop="C03")(_boolop("({0} != {1})"))
row("bitwise_andnot", "MM", "M", prop="C03")(_boolop("({0} && !{1})"))
row("bitwise_not", "M", "M", prop="C03")(_boolop("(!{0})"))
row("logical_not", "M", "M", prop="C03")(_boolop("(!{0})"))
row("eq", "MM", "M", prop="C03")(_boolop("({0} == {1})"))
row("neq", "MM", "M", prop="C03")(_boolop("({0} != {1})"))


@row("select", "MBB", "B", prop="C03")
def _select(ctx):
    R = ctx.ret = bind_ret(ctx, "B")
    c, a, b = ctx.args
    ctx.requires += conj(c.wf())
    ens = ["(%s == (%s ? %s : %s))" % (R.lane(i), c.truth(i), a.lane(i), b.lane(i)) for i in range(ctx.n)]
    ctx.ensures += conj(ens)


@row("broadcast", "S", "B", prop="C04")
def _broadcast(ctx):
    R = ctx.ret = bind_ret(ctx, "B")
    v = ctx.args[0]
    ctx.ensures += conj(["(%s == %s)" % (R.lane(i), v.lane(i)) for i in range(ctx.n)])
