"""Checks whose contracts are not lane-wise table rows: C15 (CPU detection / dispatch), C18 (allocator), C20 (geometry), C14 (termination)."""
import os, json, re, shutil, subprocess
from .common import *
from . import pipeline, check, replay


def lower(wd, tag, tu_text, jobs, keep_all=(), extra_flags=()):
    bc, fnmap, tsec = pipeline.compile_tu(wd, tag, tu_text, extra=extra_flags)
    res = pipeline.run_ll2c(bc, jobs, wd, tag, keep_all=keep_all)
    for j, r in zip(jobs, res):
        if not r.get("ok"):
            raise Infra("ll2c: %s: %s" % (j["target"], r.get("error")))
    return fnmap, res


def verify(wd, stem, cfile, contracts, harness, target, replace=(), attempts=(("concrete", "sat", 300),), unwind=66, defs=(), cbmc_flags=(),
           loop_contracts=False):
    with open(os.path.join(wd, stem + "_contracts.h"), "w") as f:
        f.write(contracts)
    with open(os.path.join(wd, stem + "_harness.h"), "w") as f:
        f.write(harness)
    task = {"cfile": cfile, "contracts": stem + "_contracts.h", "harness": stem + "_harness.h", "target": target, "replace": list(replace),
            "unwind": unwind, "workdir": wd, "stem": stem, "attempts": list(attempts), "defs": list(defs), "cbmc_flags": list(cbmc_flags),
            "loop_contracts": loop_contracts}
    return pipeline.verify_chain(task)


class Batch:
    """collects verification tasks and runs them on the worker pool"""

    def __init__(self):
        self.items = []

    def add(self, on_done, wd, stem, cfile, contracts, harness, target, replace=(), attempts=(("concrete", "sat", 300),), unwind=66, defs=(),
            cbmc_flags=(), loop_contracts=False, plain=False):
        with open(os.path.join(wd, stem + "_contracts.h"), "w") as f:
            f.write(contracts)
        with open(os.path.join(wd, stem + "_harness.h"), "w") as f:
            f.write(harness)
        task = {"cfile": cfile, "contracts": stem + "_contracts.h", "harness": stem + "_harness.h", "target": target, "replace": list(replace),
                "unwind": unwind, "workdir": wd, "stem": stem, "attempts": list(attempts), "defs": list(defs), "cbmc_flags": list(cbmc_flags),
                "loop_contracts": loop_contracts, "plain": plain}
        self.items.append((task, on_done))

    def run(self, workers=16):
        res = pipeline.run_pool([t for t, _ in self.items], workers)
        for (t, cb), r in zip(self.items, res):
            cb(r)
        self.items = []


def native_offsets(wd, struct, fields, includes="#include <xsimd/xsimd.hpp>\n"):
    """supporting static fact: byte offsets of named fields (compiled with the test-suite's compiler)"""
    src = os.path.join(wd, "offsets.cpp")
    with open(src, "w") as f:
        f.write(includes + "#include <cstdio>\n#include <cstddef>\nint main(){\n" +
                "".join('std::printf("%s %%zu\\n", offsetof(%s, %s));\n' % (x, struct, x) for x in fields) +
                'std::printf("sizeof %%zu\\n", sizeof(%s)); }\n' % struct)
    exe = os.path.join(wd, "offsets.bin")
    r = sh(["g++", "-std=c++14", "-w", "-Wno-invalid-offsetof"] + replay.HOST_MFLAGS + ["-I", os.path.join(REPO, "include"), src, "-o", exe])
    if r.returncode != 0:
        raise Infra("offset helper does not compile: " + r.stdout[-1500:])
    out = sh([exe]).stdout
    return {l.split()[0]: int(l.split()[1]) for l in out.strip().splitlines()}


class Simple:
    """result collector compatible with check.Report for the special checks"""

    def __init__(self, rep):
        self.rep = rep

    def add(self, name, where, res, replaced=(), note=None):
        r = dict(res)
        self.rep.targets.append({"dem": name, "name": name, "file": where, "line": 0, "status": r["status"], "n_props": r.get("n_props", 0),
                                 "mode": r.get("mode"), "backend": r.get("backend"), "seconds": r.get("seconds", 0), "replaced": list(replaced),
                                 "n_inlined": 0, "detail": r.get("detail", ""), "failed": r.get("failed", []), "stem": r.get("stem"),
                                 "note": note})
        self.rep.solver_seconds += r.get("solver_seconds", 0)
        if r["status"] == "proved":
            self.rep.backends[r["backend"] + "/" + r["mode"]] += r.get("n_props", 0)
            if len(self.rep.samples) < 6 and r.get("sample_props"):
                self.rep.samples.append({"function": name, "obligation": r["sample_props"][0]})
        return r


def trace_vals(f):
    """values of the ghost / observation variables in a counterexample trace"""
    vals = {}
    for st in f.get("trace") or []:
        if st.get("stepType") == "assignment" and re.search(r"(ghost_|OBS_|IN_)", str(st.get("lhs", ""))) and "value" in st:
            v = st["value"]
            vals[str(st["lhs"])] = v.get("binary") if (v.get("name") == "float" and v.get("binary")) else v.get("data", v.get("binary"))
    return vals


def finish_special(rep, pid, failures_are_inputless=True, extra_cov=None, known_match=None):
    """verdicts for the special checks: a failed obligation is reported with the verifier's output (and the trace values
    of the ghost inputs where present); there is no lane-wise native replay for these contracts unless the caller made one"""
    from . import props
    known = props.load_known()
    rdir_base = os.path.join(replay.REPLAYS, pid)
    shutil.rmtree(rdir_base, ignore_errors=True)
    exit_code = 0
    known_lines, viol_lines = [], []
    for t in rep.targets:
        if t["status"] == "undecided":
            rep.undecided.append({"fn": t["dem"], "detail": t["detail"]})
        elif t["status"] == "infra":
            rep.infra.append({"fn": t["dem"], "detail": t["detail"][:800]})
        if t["status"] != "failed":
            continue
        for f in t["failed"]:
            kf = None
            for k in known.get("findings", []):
                if k["property"] == pid and re.search(k["function"], t["dem"]) and (not k.get("obligation") or k["obligation"] in f["property"] + " " + f["description"]):
                    kf = k
            if kf:
                line = "KNOWN-FINDING: property=%s %s" % (pid, kf["what"])
                if line not in known_lines:
                    known_lines.append(line)
                    rep.known.append({"finding": kf["what"], "function": t["dem"]})
                continue
            short = re.sub(r"[^A-Za-z0-9]+", "_", t["dem"])[-40:] + "_" + sha(f["property"])[:8]
            rdir = os.path.join(rdir_base, short)
            os.makedirs(rdir, exist_ok=True)
            vals = {}
            for st in f.get("trace") or []:
                if st.get("stepType") == "assignment" and re.search(r"(ghost_|OBS_|IN_)", str(st.get("lhs", ""))) and "value" in st:
                    v = st["value"]
                    vals[str(st["lhs"])] = v.get("binary") if (v.get("name") == "float" and v.get("binary")) else v.get("data", v.get("binary"))
            rec = {"property": pid, "obligation": f["property"], "description": f["description"], "function": t["dem"], "source": t["file"],
                   "counterexample_values": vals, "note": t.get("note"), "native": t.get("native")}
            nat = None
            if t.get("native_replay"):
                try:
                    nat = t["native_replay"](f, vals, rdir)
                except Exception as e:
                    nat = {"error": repr(e)}
                rec["native"] = nat
            path = os.path.join(rdir, "replay.json")
            with open(path, "w") as fh:
                json.dump(rec, fh, indent=1)
            if nat is not None and nat.get("reproduced") is False:
                rep.infra.append({"fn": t["dem"], "detail": "counterexample of %s does not reproduce on the real code: %s" % (f["property"], str(nat.get("output"))[-200:])})
                continue
            sfx = "" if (nat and nat.get("reproduced")) else " no-failing-input-found"
            viol_lines.append("VIOLATION property=%s replay=%s%s" % (pid, path, sfx))
            rep.violations.append(f["property"])
            exit_code = 1
    rep.notes["infrastructure_problems"] = rep.infra[:50]
    rep.notes["known_findings_hit"] = rep.known
    ev = rep.write(extra_cov=extra_cov, trusted=check.TRUSTED)
    for l in known_lines + viol_lines:
        print(l)
    cov = ev["coverage"]
    print("[%s] tier=%s functions=%d proved=%d obligations=%d undecided=%d infra=%d violations=%d known=%d wall=%.0fs"
          % (pid, rep.tier, cov["functions_under_contract"], cov["functions_proved"], cov["obligations"], len(rep.undecided), len(rep.infra),
             len(rep.violations), len(rep.known), ev["wall_s"]))
    for u in rep.undecided[:10]:
        print("UNDECIDED (not counted as proved): %s: %s" % (u["fn"][:120], str(u["detail"])[:300]))
    if exit_code == 0 and (rep.infra or (rep.undecided and os.environ.get("VERIF_STRICT"))):
        exit_code = 2
        for i in rep.infra[:10]:
            print("INFRA: %s: %s" % (i["fn"][:120], str(i["detail"])[:400]))
    if not os.environ.get("VERIF_KEEP") and getattr(rep, "wd", None):
        shutil.rmtree(rep.wd, ignore_errors=True)
    return exit_code
