"""Per-property checks: case lists, tiers, verdicts (VIOLATION / KNOWN-FINDING lines, exit codes), evidence."""
import os, sys, json, argparse, shutil, time, re
from .common import *
from . import check, entries, table, replay

ARCH_FILE = {
    "sse2": "xsimd_sse2.hpp", "sse3": "xsimd_sse3.hpp", "ssse3": "xsimd_ssse3.hpp", "sse4_1": "xsimd_sse4_1.hpp", "sse4_2": "xsimd_sse4_2.hpp",
    "fma3_sse": "xsimd_fma3_sse.hpp", "fma4": "xsimd_fma4.hpp", "avx": "xsimd_avx.hpp", "fma3_avx": "xsimd_fma3_avx.hpp", "avx2": "xsimd_avx2.hpp",
    "avxvnni": "xsimd_avxvnni.hpp", "fma3_avx2": "xsimd_fma3_avx2.hpp", "avx512f": "xsimd_avx512f.hpp", "avx512cd": "xsimd_avx512cd.hpp",
    "avx512dq": "xsimd_avx512dq.hpp", "avx512bw": "xsimd_avx512bw.hpp", "avx512er": "xsimd_avx512er.hpp", "avx512pf": "xsimd_avx512pf.hpp",
    "avx512ifma": "xsimd_avx512ifma.hpp", "avx512vbmi": "xsimd_avx512vbmi.hpp", "avx512vbmi2": "xsimd_avx512vbmi2.hpp",
    "avx512vnni_bw": "xsimd_avx512vnni_avx512bw.hpp", "avx512vnni_vbmi2": "xsimd_avx512vnni_avx512vbmi2.hpp",
    "emu128": "xsimd_emulated.hpp", "emu256": "xsimd_emulated.hpp",
}
ARCH_FILES = set(ARCH_FILE.values())
# architectures on which the architecture-independent layers (generic kernels, operators, API) are proved in the quick tier
QUICK_BASE = {"sse2", "avx512bw"}
# the two largest families prove the architecture-independent layers on sse2 only in the quick tier (the 64-lane instantiations of the
# generic kernels alone need more than the quick budget); avx512bw is covered there by its own kernels and by the thorough tier
QUICK_BASE_BY_PROP = {"C01": {"sse2"}, "C05": {"sse2"}}

C01_OPS = ["add", "sub", "mul", "neg", "abs", "min", "max", "incr", "decr", "incr_if", "decr_if", "fma", "fms", "fnma", "fnms", "div", "mod",
           "sign", "sadd", "ssub", "avg", "avgr"]
C07_OPS = ["bitwise_and", "bitwise_or", "bitwise_xor", "bitwise_andnot", "bitwise_not", "bitwise_lshift_s", "bitwise_rshift_s",
           "bitwise_lshift_b", "bitwise_rshift_b", "rotl_s", "rotr_s", "rotl_b", "rotr_b"]
C03_OPS = ["eq", "neq", "lt", "le", "gt", "ge", "select", "bool_and", "bool_or", "bool_xor", "bool_not", "bool_lnot", "bool_eq", "bool_neq",
           "bool_andnot", "bool_land", "bool_lor", "bool_any", "bool_all", "bool_none", "bool_count", "bool_mask", "bool_from_mask", "bool_get"] + [o for o in entries.OPS if o.startswith("bool_cast_to_")]

C02_OPS = ["add", "sub", "mul", "div", "sqrt", "neg", "abs", "copysign", "bitofsign", "nextafter", "bitwise_and", "bitwise_or", "bitwise_xor",
           "bitwise_andnot", "bitwise_not", "fma", "fms", "fnma", "fnms", "min", "max", "isnan", "isinf", "isfinite", "is_flint",
           "is_even", "is_odd", "sign", "signnz", "ldexp", "frexp"]
C08_OPS = ["ceil", "floor", "trunc", "round", "nearbyint", "rint", "nearbyint_as_int"]

C04_OPS = ["load_aligned", "load_unaligned", "store_aligned", "store_unaligned", "broadcast", "bool_load_aligned", "bool_load_unaligned",
           "bool_store_aligned", "bool_store_unaligned", "gather", "gather_s", "scatter", "get"]

C06_OPS = [o for o in entries.OPS if o.startswith("batch_cast_to_") or o.startswith("bitwise_cast_to_")] + ["to_int", "to_float"] + \
          [o for o in entries.OPS if o.startswith("load_as_from_") or o.startswith("store_as_to_")]

C05_OPS = [o for o in entries.OPS if o.split("_")[0] in ("zip", "swizzle", "compress", "expand", "extract", "insert", "slide", "rotate", "shuffle")]
C05_OPS.append("transpose")
C05_QUICK = ["transpose", "zip_lo", "zip_hi", "swizzle_dyn", "compress", "expand", "extract_pair", "insert_0", "insert_3", "slide_left_1", "slide_left_3", "slide_right_1", "slide_right_7",
             "slide_right_8", "rotate_left_1", "rotate_left_3", "rotate_right_1", "rotate_right_3", "shuffle_zipstride", "shuffle_ziplo", "shuffle_ziphi", "shuffle_mix", "shuffle_sel", "shuffle_lodup"]

C09_OPS = ["reduce_add", "reduce_max", "reduce_min", "haddp"]

C16_OPS = ["cadd", "csub", "cneg", "cconj", "creal", "cimag", "ceq", "cneq", "cmul", "cdiv", "cfma", "cfms", "cfnma", "cfnms", "cload_aligned", "cload_unaligned", "cstore_aligned", "cstore_unaligned"]

PROPS = {
    "C16": dict(ops=C16_OPS, quick_ops=[o for o in C16_OPS if not o.startswith("cf")], types=FLOAT_TYPES, design="5.17"),
    "C09": dict(ops=C09_OPS, types=ALL_TYPES, design="5.10"),
    "C05": dict(ops=C05_OPS, quick_ops=C05_QUICK, types=ALL_TYPES, quick_types=["i8", "u16", "i32", "u64", "f32", "f64"], design="5.6", optional=True),
    "C06": dict(ops=C06_OPS, types=ALL_TYPES, design="5.7"),
    "C04": dict(ops=C04_OPS, types=ALL_TYPES, design="5.5"),
    "C02": dict(ops=C02_OPS, types=FLOAT_TYPES, design="5.3"),
    "C08": dict(ops=C08_OPS, types=FLOAT_TYPES, design="5.9"),
    "C01": dict(ops=C01_OPS, types=INT_TYPES, design="5.2"),
    "C07": dict(ops=C07_OPS, types=INT_TYPES, design="5.8"),
    "C03": dict(ops=C03_OPS, types=ALL_TYPES, design="5.4"),
}


def quick_filter(pid):
    def f(fn):
        if table.prop_of(fn) != pid:
            return False
        base = os.path.basename(fn.file)
        if base in ARCH_FILES:
            return base == ARCH_FILE.get(fn.aid)
        return fn.aid in QUICK_BASE
    return f


def quick_pre_filter(pid):
    return lambda fn: table.prop_of(fn) == pid


def quick_post_filter(pid):
    """quick tier: (generic kernels instantiated for none of the base architectures are proved on the first architecture that uses them)
    quick tier: a function is proved for architecture A if it is defined in A's own header, or has code of A's own header inlined
    into it (architecture-specific detail helpers), or A is one of the base architectures for the architecture-independent layers"""
    def f(fn, job):
        if fn.aid is None:
            return True
        base = os.path.basename(fn.file)
        own = ARCH_FILE.get(fn.aid)
        if base in ARCH_FILES:
            return base == own
        if base in ("xsimd_api.hpp", "xsimd_batch.hpp"):
            return fn.aid == "sse2" or (fn.aid == "avx512bw" and fn.tid == "i8" and pid not in QUICK_BASE_BY_PROP)   # forwarding layers: one vector-mask and one k-mask shape
        base_archs = QUICK_BASE_BY_PROP.get(pid, QUICK_BASE)
        if fn.aid in base_archs:
            return True
        if any(os.path.basename(i.get("file", "")) == own for i in job.get("inlined", [])):
            return True
        # architecture-independent kernel that no base architecture instantiates (e.g. generic float ge is only used by the avx family)
        fns = getattr(f, "fns", None)
        if fns:
            key = (fn.sig.qual, fn.kinds, fn.tid, os.path.basename(fn.file), fn.line)
            peers = sorted(g.aid for g in fns.values() if g.aid and (g.sig.qual, g.kinds, g.tid, os.path.basename(g.file), g.line) == key)
            if peers and not any(a in base_archs for a in peers):
                return fn.aid == peers[0]
        return False
    return f


def thorough_filter(pid):
    return lambda fn: table.prop_of(fn) == pid


def load_known():
    p = os.path.join(VERIF, "known_findings.json")
    if not os.path.exists(p):
        return {"findings": [], "fixed": []}
    with open(p) as f:
        return json.load(f)


def finish(rep, pid, extra_cov=None, level_note=None):
    """replay failures, print verdict lines, write evidence; returns exit code"""
    known = load_known()
    viol_lines, known_lines = [], []
    exit_code = 0
    rdir_base = os.path.join(replay.REPLAYS, pid)
    if os.path.isdir(rdir_base):
        shutil.rmtree(rdir_base)
    nrep = 0
    for t in rep.targets:
        if t["status"] != "failed":
            continue
        if t.get("same_vc_as"):
            pass
        fn = t["fn_obj"]
        fails = t["failed"]
        f0 = next((f for f in fails if f.get("trace")), fails[0])
        short = re.sub(r"[^A-Za-z0-9]+", "_", fn.sig.qual)[-40:] + "_" + sha(fn.name)[:8]
        rdir = os.path.join(rdir_base, short)
        try:
            meta = replay.make_replay(pid, t, f0, rdir)
            res, out = replay.run_replay(rdir) if (fn.aid is None or ARCHS[fn.aid][3]) else (None, "architecture not executable on this host")
        except Exception as e:  # replay generation must never turn into a verdict
            import traceback
            rep.infra.append({"fn": fn.sig.dem, "detail": "replay generation failed for %s: %s" % (f0["property"], traceback.format_exc()[-600:])})
            continue
        rec = {"property": pid, "obligation": f0["property"], "description": f0["description"], "function": fn.sig.dem,
               "source": "%s:%s" % (t["file"], t["line"]), "mode": t["mode"], "backend": t["backend"], "replay": meta, "native_result": res,
               "native_output": out[-3000:] if isinstance(out, str) else None,
               "all_failed_obligations": [f["property"] + ": " + f["description"] for f in fails][:20],
               "how_to_rerun": "sh %s/build.sh" % rdir}
        path = os.path.join(rdir, "replay.json")
        with open(path, "w") as fh:
            json.dump(rec, fh, indent=1)
        nrep += 1
        is_post = any("postcondition" in f["property"] for f in fails)
        kf = None
        for k in known.get("findings", []):
            if k["property"] == pid and re.search(k["function"], t.get("dem") or fn.sig.dem) and (not k.get("obligation") or any(k["obligation"] in f["property"] or k["obligation"] in f["description"] for f in fails)):
                kf = k
        src_assert = "source assertion" in f0.get("description", "")
        if res is None and src_assert and isinstance(out, str) and re.search(r"Assertion .* failed", out):
            # the obligation is an assert() of the library itself and the real code aborts on it for the replayed input
            res = {"pre": 1, "post": 0, "aborted_on_source_assertion": True}
            rec["native_result"] = res
        if res is None and meta.get("has_input") and (fn.aid is None or ARCHS[fn.aid][3]):
            # the replay program itself did not build or run: an infrastructure problem, never a verdict
            rep.infra.append({"fn": fn.sig.dem, "detail": "replay of %s did not build/run: %s" % (f0["property"], str(out)[-300:])})
            continue
        if res is not None and res.get("pre") == 1 and res.get("post") == 0:
            verdict = "reproduced"
            if res.get("attempt", 0) > 0:
                rec["input_source"] = ("the verifier's counterexample did not fail on the real code; the failing input (native_result.inputs_hex, one entry per "
                                       "floating operand) was found by the replay driver's native search over special operand values, attempt %d" % res["attempt"])
        elif res is not None and res.get("post") == 1 and is_post and t["mode"] == "concrete":
            verdict = "not_reproduced"
        elif res is None and not meta.get("has_input"):
            verdict = "no_input"
        else:
            verdict = "unconfirmed"
        rec["verdict"] = verdict
        with open(path, "w") as fh:
            json.dump(rec, fh, indent=1)
        if kf is not None and verdict in ("reproduced", "no_input", "unconfirmed"):
            line = "KNOWN-FINDING: property=%s %s" % (pid, kf["what"])
            if line not in known_lines:
                known_lines.append(line)
            rep.known.append({"finding": kf["what"], "function": fn.sig.dem})
            continue
        if verdict == "reproduced":
            viol_lines.append("VIOLATION property=%s replay=%s" % (pid, path))
            rep.violations.append(rec["obligation"])
            exit_code = 1
        elif verdict == "not_reproduced":
            # the machinery disagrees with the real code: never a violation
            rep.infra.append({"fn": fn.sig.dem, "detail": "counterexample of %s does not reproduce natively (model/lowering defect?)" % f0["property"]})
        elif t["mode"] != "concrete":
            # a failure seen only under an abstraction (uninterpreted arithmetic) is never a verdict unless it replays
            rep.undecided.append({"fn": fn.sig.dem, "detail": "failed only under abstraction (%s): %s; not reproduced on the real code" % (t["mode"], f0["property"])})
        elif verdict == "no_input" or not is_post:
            # frame / pointer / unwinding / source-assert obligations carry no replayable postcondition
            viol_lines.append("VIOLATION property=%s replay=%s no-failing-input-found" % (pid, path))
            rep.violations.append(rec["obligation"])
            exit_code = 1
        else:
            if t["mode"] != "concrete":
                rep.undecided.append({"fn": fn.sig.dem, "detail": "failed only under abstraction (%s) and the counterexample does not reproduce" % t["mode"]})
            else:
                viol_lines.append("VIOLATION property=%s replay=%s no-failing-input-found" % (pid, path))
                rep.violations.append(rec["obligation"])
                exit_code = 1
    for t in rep.targets:
        if t["status"] == "undecided":
            rep.undecided.append({"fn": t["dem"], "detail": t["detail"], "history": t.get("history")})
        elif t["status"] == "infra":
            rep.infra.append({"fn": t["dem"], "detail": t["detail"][:600]})
    rep.notes["infrastructure_problems"] = rep.infra[:50]
    rep.notes["known_findings_hit"] = rep.known
    ev = rep.write(extra_cov=extra_cov, trusted=check.TRUSTED)
    for l in known_lines:
        print(l)
    for l in viol_lines:
        print(l)
    cov = ev["coverage"]
    print("[%s] tier=%s functions=%d proved=%d obligations=%d discharged=%d undecided=%d infra=%d violations=%d known=%d wall=%.0fs"
          % (pid, rep.tier, cov["functions_under_contract"], cov["functions_proved"], cov["obligations"], cov["discharged"],
             len(rep.undecided), len(rep.infra), len(rep.violations), len(rep.known), ev["wall_s"]))
    bad_undecided = unexpected_undecided(pid, rep)
    if exit_code == 0 and (rep.infra or bad_undecided):
        exit_code = 2
        for i in rep.infra[:10]:
            print("INFRA: %s: %s" % (i["fn"][:120], i["detail"][:300]))
    if not os.environ.get("VERIF_KEEP") and getattr(rep, "wd", None):
        shutil.rmtree(rep.wd, ignore_errors=True)
    return exit_code


def unexpected_undecided(pid, rep):
    p = os.path.join(VERIF, "expected_undecided.json")
    exp = []
    if os.path.exists(p):
        with open(p) as f:
            exp = json.load(f).get(pid, [])
    bad = [u for u in rep.undecided if not any(re.search(e, u["fn"]) for e in exp)]
    for u in bad[:10]:
        print("UNDECIDED (not counted as proved): %s: %s" % (u["fn"][:140], str(u["detail"])[:200]))
    # a solver that does not finish within the tier's limits decides nothing: the function is listed in the evidence as undecided and the
    # run still reports what was explored.  VERIF_STRICT=1 turns an unexpected undecided function into exit 2 (used while developing).
    return bad if os.environ.get("VERIF_STRICT") else []


def run_value_property(pid, tier, seed, only_archs=None, only_ops=None, only_types=None):
    cfg = PROPS[pid]
    archs = list(DEFINING_ARCHS) if tier == "quick" else list(X86_ARCHS) + ["emu128", "emu256"]
    if only_archs:
        archs = only_archs
    ops = only_ops or (cfg.get("quick_ops") if tier == "quick" and cfg.get("quick_ops") else cfg["ops"])
    types = only_types or (cfg.get("quick_types") if tier == "quick" and cfg.get("quick_types") else cfg["types"])
    cases = [(o, t, a) for o in ops for t in types if t in entries.OPS[o][2] for a in archs]
    flt = quick_pre_filter(pid) if tier == "quick" else thorough_filter(pid)
    rep = check.run_cases(pid, cases, tier, seed, props_filter=flt, post_filter=quick_post_filter(pid) if tier == "quick" else None,
                          optional_entries=cfg.get("optional", False))
    rep.notes["architectures"] = archs
    rep.notes["element_types"] = types
    rep.notes["operations"] = ops
    rep.notes["tier_rule"] = ("quick: every kernel definition in an architecture's own header instantiated with that architecture; "
                              "architecture-independent layers (generic kernels, operators, API) on %s" % sorted(QUICK_BASE_BY_PROP.get(pid, QUICK_BASE))) if tier == "quick" \
        else "thorough: every instantiation reachable from the entries on all x86 architectures"
    return finish(rep, pid)


C17_OPS = list(entries.SOPS)


def run_c17(tier, seed, only_ops=None, only_types=None):
    ops = only_ops or C17_OPS
    cases = [(o, t) for o in ops for t in (only_types or ALL_TYPES) if t in entries.SOPS[o][2]]
    text = "#include <xsimd/xsimd.hpp>\n#include <cstdint>\n" + "".join(entries.scalar_entry_text(*c) for c in cases)
    roots = [entries.scalar_entry_name(*c) for c in cases]
    groups = {"scalar": (text, roots)}
    if not only_ops or "clip" in only_ops:
        # the batch counterpart of clip is proved against the same specification as the scalar overload
        bc = [("clip", t, a) for t in (only_types or ALL_TYPES) for a in (["sse2", "avx512bw"] if tier == "quick" else [x for x in X86_ARCHS])]
        groups["x86"] = (entries.tu_text(bc), [entries.entry_name(*c) for c in bc])
    rep = check.run_groups("C17", groups, tier, seed, props_filter=lambda fn: table.prop_of(fn) == "C17")
    rep.notes["operations"] = ops
    rep.notes["agreement_argument"] = ("each scalar overload is proved against spec_<op>_<T>, the same specification function that is the per-lane "
                                       "postcondition of the batch kernels (C01/C03/C07); agreement of scalar tail and vector body follows")
    return finish(rep, "C17")


def main(argv):
    ap = argparse.ArgumentParser(prog="verif")
    ap.add_argument("cmd", choices=["check", "replay"])
    ap.add_argument("prop")
    ap.add_argument("--tier", default=os.environ.get("VERIF_TIER", "quick"))
    ap.add_argument("--archs")
    ap.add_argument("--ops")
    ap.add_argument("--types")
    a = ap.parse_args(argv)
    seed = int(os.environ.get("VERIF_SEED", "0") or 0)
    os.environ["VERIF_TIER_ACTIVE"] = a.tier
    if a.cmd == "check" and a.tier == "quick":
        from . import pipeline
        pipeline.DEADLINE = time.time() + float(os.environ.get("VERIF_BUDGET", "660"))
    if a.cmd == "replay":
        d = os.path.dirname(a.prop) if a.prop.endswith(".json") else a.prop
        r = sh(["sh", os.path.join(d, "build.sh")])
        print(r.stdout)
        return 0 if r.returncode == 0 else 1
    try:
        if a.prop in PROPS:
            return run_value_property(a.prop, a.tier, seed, a.archs.split(",") if a.archs else None, a.ops.split(",") if a.ops else None,
                                      a.types.split(",") if a.types else None)
        if a.prop == "C15":
            from . import c15
            return c15.run(a.tier, seed)
        if a.prop == "C18":
            from . import c18
            return c18.run(a.tier, seed)
        if a.prop == "C20":
            from . import c20
            return c20.run(a.tier, seed)
        if a.prop == "C14":
            from . import c14
            return c14.run(a.tier, seed)
        if a.prop == "C19":
            from . import c19
            return c19.run(a.tier, seed)
        if a.prop == "C13":
            from . import c13
            return c13.run(a.tier, seed)
        if a.prop == "C12":
            from . import c12
            return c12.run(a.tier, seed)
        if a.prop == "C17":
            return run_c17(a.tier, seed, a.ops.split(",") if a.ops else None, a.types.split(",") if a.types else None)
        print("unknown property", a.prop)
        return 2
    except Infra as e:
        print("INFRA: %s" % e)
        return 2
