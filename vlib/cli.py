"""command line: verif dev|check|replay ..."""
import sys, os, json, argparse
from .common import *
from . import check, entries


def dev(args):
    ap = argparse.ArgumentParser()
    ap.add_argument("--ops", required=True)
    ap.add_argument("--types", default="i8")
    ap.add_argument("--archs", default="sse2")
    ap.add_argument("--tier", default="quick")
    a = ap.parse_args(args)
    cases = []
    for o in a.ops.split(","):
        for t in a.types.split(","):
            if t not in entries.OPS[o][2]:
                continue
            for ar in a.archs.split(","):
                cases.append((o, t, ar))
    rep = check.run_cases("DEV", cases, a.tier, 0)
    for t in rep.targets:
        print("%-9s %-6s %-8s %6.1fs %4d  %s:%s  %s  %s" % (t["status"], t["mode"], t["backend"], t["seconds"], t["n_props"], os.path.basename(t["file"]), t["line"], t["dem"][:110], t["detail"][:300]))
    for i in rep.infra:
        print("INFRA", i)
    print("workdir", rep.wd)
    return 0


def main(argv):
    if not argv:
        print("usage: verif dev|check ...")
        return 2
    if argv[0] == "dev":
        return dev(argv[1:])
    from . import props
    return props.main(argv)
