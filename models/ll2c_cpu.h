/* Ghost machine state for CPU feature detection (C15): the CPUID leaves the detector reads and XCR0 are symbolic,
 * so one proof covers every configuration.  CPUID / XGETBV inline asm is mapped here by ll2c. */
#ifndef LL2C_CPU_H
#define LL2C_CPU_H
#if defined(NEED_ll_asm_cpuid) || defined(NEED_ll_asm_xgetbv)
u32 ghost_cpuid_1[4];        /* leaf 1            : eax ebx ecx edx */
u32 ghost_cpuid_7_0[4];      /* leaf 7 subleaf 0 */
u32 ghost_cpuid_7_1[4];      /* leaf 7 subleaf 1 */
u32 ghost_cpuid_80000001[4]; /* leaf 0x80000001 */
u32 ghost_xcr0;              /* low half of XCR0 */
#define GHOST_OSXSAVE ((ghost_cpuid_1[2] >> 27) & 1)
#define GHOST_XCR0(b) ((ghost_xcr0 >> (b)) & 1)
static inline void ll_asm_cpuid(u32 *a, u32 *b, u32 *c, u32 *d, u32 level, u32 count) {
  const u32 *r;
  u32 other[4] = {nondet_u32(), nondet_u32(), nondet_u32(), nondet_u32()};
  if (level == 1) r = ghost_cpuid_1;
  else if (level == 7 && count == 0) r = ghost_cpuid_7_0;
  else if (level == 7 && count == 1) r = ghost_cpuid_7_1;
  else if (level == 0x80000001u) r = ghost_cpuid_80000001;
  else r = other;
  *a = r[0]; *b = r[1]; *c = r[2]; *d = r[3];
}
static inline u32 ll_asm_xgetbv(void) {
  __CPROVER_assert(GHOST_OSXSAVE, "XGETBV executed only when CPUID.1:ECX.OSXSAVE is set (#UD otherwise)");
  return ghost_xcr0;
}
#endif
#ifdef NEED_ll_exception
u8 ghost_exception_thrown;   /* set by a (modelled) throw */
static u8 ll_exception_buffer[256];
#endif
#endif
