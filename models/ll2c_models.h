/* C models of the llvm.x86.* target intrinsics left in clang's IR (assumed contracts of the hardware;
 * written from the Intel SDM / LLVM LangRef; differential-tested natively by tools/modeltest). */
#ifndef LL2C_MODELS_H
#define LL2C_MODELS_H
#ifdef NEED_llvm_x86_sse2_psrai_w
static inline v8u16 llvm_x86_sse2_psrai_w(v8u16 a, u32 c) {
  v8u16 r; for (int i = 0; i < 8; ++i) r.e[i] = (u16)((s16)a.e[i] >> (c > 15 ? 15 : c)); return r; }
#endif
#endif
