/* C models of the llvm.x86.* target intrinsics that remain in clang's IR (everything else is lowered by
 * clang's own headers to generic IR).  These are the assumed contracts of the hardware, written from the
 * Intel SDM; tools/modeltest differential-tests each against the real instruction where the host has it.
 * Each model is compiled only when the translation unit needs it (NEED_<name>). */
#ifndef LL2C_MODELS_H
#define LL2C_MODELS_H

/* ---- shifts by a scalar count: count >= width gives 0 (logical) / sign fill (arithmetic) ---------------- */
#define MODEL_SLL(name, VT, N, W) static inline VT name(VT a, u32 c) { VT r; for (int i = 0; i < N; ++i) r.e[i] = c >= W ? 0 : (u##W)(a.e[i] << c); return r; }
#define MODEL_SRL(name, VT, N, W) static inline VT name(VT a, u32 c) { VT r; for (int i = 0; i < N; ++i) r.e[i] = c >= W ? 0 : (u##W)(a.e[i] >> c); return r; }
#define MODEL_SRA(name, VT, N, W) static inline VT name(VT a, u32 c) { VT r; for (int i = 0; i < N; ++i) r.e[i] = (u##W)((s##W)a.e[i] >> (c >= W ? W - 1 : c)); return r; }
/* per-lane counts */
#define MODEL_SLLV(name, VT, N, W) static inline VT name(VT a, VT c) { VT r; for (int i = 0; i < N; ++i) r.e[i] = c.e[i] >= W ? 0 : (u##W)(a.e[i] << c.e[i]); return r; }
#define MODEL_SRLV(name, VT, N, W) static inline VT name(VT a, VT c) { VT r; for (int i = 0; i < N; ++i) r.e[i] = c.e[i] >= W ? 0 : (u##W)(a.e[i] >> c.e[i]); return r; }
#define MODEL_SRAV(name, VT, N, W) static inline VT name(VT a, VT c) { VT r; for (int i = 0; i < N; ++i) r.e[i] = (u##W)((s##W)a.e[i] >> (c.e[i] >= W ? W - 1 : c.e[i])); return r; }
/* count taken from the low 64 bits of a vector register (psll/psrl/psra with xmm count) */
#define MODEL_SLLX(name, VT, N, W, CT, CW) static inline VT name(VT a, CT cv) { u64 c = LL_LOW64_##CW(cv); VT r; for (int i = 0; i < N; ++i) r.e[i] = c >= W ? 0 : (u##W)(a.e[i] << c); return r; }
#define MODEL_SRLX(name, VT, N, W, CT, CW) static inline VT name(VT a, CT cv) { u64 c = LL_LOW64_##CW(cv); VT r; for (int i = 0; i < N; ++i) r.e[i] = c >= W ? 0 : (u##W)(a.e[i] >> c); return r; }
#define MODEL_SRAX(name, VT, N, W, CT, CW) static inline VT name(VT a, CT cv) { u64 c = LL_LOW64_##CW(cv); VT r; for (int i = 0; i < N; ++i) r.e[i] = (u##W)((s##W)a.e[i] >> (c >= W ? W - 1 : c)); return r; }
#define LL_LOW64_16(v) ((u64)(v).e[0] | ((u64)(v).e[1] << 16) | ((u64)(v).e[2] << 32) | ((u64)(v).e[3] << 48))
#define LL_LOW64_32(v) ((u64)(v).e[0] | ((u64)(v).e[1] << 32))
#define LL_LOW64_64(v) ((u64)(v).e[0])

#ifdef NEED_llvm_x86_sse2_pslli_w
MODEL_SLL(llvm_x86_sse2_pslli_w, v8u16, 8, 16)
#endif
#ifdef NEED_llvm_x86_sse2_pslli_d
MODEL_SLL(llvm_x86_sse2_pslli_d, v4u32, 4, 32)
#endif
#ifdef NEED_llvm_x86_sse2_pslli_q
MODEL_SLL(llvm_x86_sse2_pslli_q, v2u64, 2, 64)
#endif
#ifdef NEED_llvm_x86_sse2_psrli_w
MODEL_SRL(llvm_x86_sse2_psrli_w, v8u16, 8, 16)
#endif
#ifdef NEED_llvm_x86_sse2_psrli_d
MODEL_SRL(llvm_x86_sse2_psrli_d, v4u32, 4, 32)
#endif
#ifdef NEED_llvm_x86_sse2_psrli_q
MODEL_SRL(llvm_x86_sse2_psrli_q, v2u64, 2, 64)
#endif
#ifdef NEED_llvm_x86_sse2_psrai_w
MODEL_SRA(llvm_x86_sse2_psrai_w, v8u16, 8, 16)
#endif
#ifdef NEED_llvm_x86_sse2_psrai_d
MODEL_SRA(llvm_x86_sse2_psrai_d, v4u32, 4, 32)
#endif
#ifdef NEED_llvm_x86_avx2_pslli_w
MODEL_SLL(llvm_x86_avx2_pslli_w, v16u16, 16, 16)
#endif
#ifdef NEED_llvm_x86_avx2_pslli_d
MODEL_SLL(llvm_x86_avx2_pslli_d, v8u32, 8, 32)
#endif
#ifdef NEED_llvm_x86_avx2_pslli_q
MODEL_SLL(llvm_x86_avx2_pslli_q, v4u64, 4, 64)
#endif
#ifdef NEED_llvm_x86_avx2_psrli_w
MODEL_SRL(llvm_x86_avx2_psrli_w, v16u16, 16, 16)
#endif
#ifdef NEED_llvm_x86_avx2_psrli_d
MODEL_SRL(llvm_x86_avx2_psrli_d, v8u32, 8, 32)
#endif
#ifdef NEED_llvm_x86_avx2_psrli_q
MODEL_SRL(llvm_x86_avx2_psrli_q, v4u64, 4, 64)
#endif
#ifdef NEED_llvm_x86_avx2_psrai_w
MODEL_SRA(llvm_x86_avx2_psrai_w, v16u16, 16, 16)
#endif
#ifdef NEED_llvm_x86_avx2_psrai_d
MODEL_SRA(llvm_x86_avx2_psrai_d, v8u32, 8, 32)
#endif
#ifdef NEED_llvm_x86_avx512_pslli_w_512
MODEL_SLL(llvm_x86_avx512_pslli_w_512, v32u16, 32, 16)
#endif
#ifdef NEED_llvm_x86_avx512_pslli_d_512
MODEL_SLL(llvm_x86_avx512_pslli_d_512, v16u32, 16, 32)
#endif
#ifdef NEED_llvm_x86_avx512_pslli_q_512
MODEL_SLL(llvm_x86_avx512_pslli_q_512, v8u64, 8, 64)
#endif
#ifdef NEED_llvm_x86_avx512_psrli_w_512
MODEL_SRL(llvm_x86_avx512_psrli_w_512, v32u16, 32, 16)
#endif
#ifdef NEED_llvm_x86_avx512_psrli_d_512
MODEL_SRL(llvm_x86_avx512_psrli_d_512, v16u32, 16, 32)
#endif
#ifdef NEED_llvm_x86_avx512_psrli_q_512
MODEL_SRL(llvm_x86_avx512_psrli_q_512, v8u64, 8, 64)
#endif
#ifdef NEED_llvm_x86_avx512_psrai_w_512
MODEL_SRA(llvm_x86_avx512_psrai_w_512, v32u16, 32, 16)
#endif
#ifdef NEED_llvm_x86_avx512_psrai_d_512
MODEL_SRA(llvm_x86_avx512_psrai_d_512, v16u32, 16, 32)
#endif
#ifdef NEED_llvm_x86_avx512_psrai_q_512
MODEL_SRA(llvm_x86_avx512_psrai_q_512, v8u64, 8, 64)
#endif
#ifdef NEED_llvm_x86_avx512_psrai_q_256
MODEL_SRA(llvm_x86_avx512_psrai_q_256, v4u64, 4, 64)
#endif
#ifdef NEED_llvm_x86_avx512_psrai_q_128
MODEL_SRA(llvm_x86_avx512_psrai_q_128, v2u64, 2, 64)
#endif

#ifdef NEED_llvm_x86_avx2_psllv_d
MODEL_SLLV(llvm_x86_avx2_psllv_d, v4u32, 4, 32)
#endif
#ifdef NEED_llvm_x86_avx2_psllv_q
MODEL_SLLV(llvm_x86_avx2_psllv_q, v2u64, 2, 64)
#endif
#ifdef NEED_llvm_x86_avx2_psllv_d_256
MODEL_SLLV(llvm_x86_avx2_psllv_d_256, v8u32, 8, 32)
#endif
#ifdef NEED_llvm_x86_avx2_psllv_q_256
MODEL_SLLV(llvm_x86_avx2_psllv_q_256, v4u64, 4, 64)
#endif
#ifdef NEED_llvm_x86_avx2_psrlv_d
MODEL_SRLV(llvm_x86_avx2_psrlv_d, v4u32, 4, 32)
#endif
#ifdef NEED_llvm_x86_avx2_psrlv_q
MODEL_SRLV(llvm_x86_avx2_psrlv_q, v2u64, 2, 64)
#endif
#ifdef NEED_llvm_x86_avx2_psrlv_d_256
MODEL_SRLV(llvm_x86_avx2_psrlv_d_256, v8u32, 8, 32)
#endif
#ifdef NEED_llvm_x86_avx2_psrlv_q_256
MODEL_SRLV(llvm_x86_avx2_psrlv_q_256, v4u64, 4, 64)
#endif
#ifdef NEED_llvm_x86_avx2_psrav_d
MODEL_SRAV(llvm_x86_avx2_psrav_d, v4u32, 4, 32)
#endif
#ifdef NEED_llvm_x86_avx2_psrav_d_256
MODEL_SRAV(llvm_x86_avx2_psrav_d_256, v8u32, 8, 32)
#endif
#ifdef NEED_llvm_x86_avx512_psllv_d_512
MODEL_SLLV(llvm_x86_avx512_psllv_d_512, v16u32, 16, 32)
#endif
#ifdef NEED_llvm_x86_avx512_psllv_q_512
MODEL_SLLV(llvm_x86_avx512_psllv_q_512, v8u64, 8, 64)
#endif
#ifdef NEED_llvm_x86_avx512_psllv_w_512
MODEL_SLLV(llvm_x86_avx512_psllv_w_512, v32u16, 32, 16)
#endif
#ifdef NEED_llvm_x86_avx512_psrlv_d_512
MODEL_SRLV(llvm_x86_avx512_psrlv_d_512, v16u32, 16, 32)
#endif
#ifdef NEED_llvm_x86_avx512_psrlv_q_512
MODEL_SRLV(llvm_x86_avx512_psrlv_q_512, v8u64, 8, 64)
#endif
#ifdef NEED_llvm_x86_avx512_psrlv_w_512
MODEL_SRLV(llvm_x86_avx512_psrlv_w_512, v32u16, 32, 16)
#endif
#ifdef NEED_llvm_x86_avx512_psrav_d_512
MODEL_SRAV(llvm_x86_avx512_psrav_d_512, v16u32, 16, 32)
#endif
#ifdef NEED_llvm_x86_avx512_psrav_q_512
MODEL_SRAV(llvm_x86_avx512_psrav_q_512, v8u64, 8, 64)
#endif
#ifdef NEED_llvm_x86_avx512_psrav_w_512
MODEL_SRAV(llvm_x86_avx512_psrav_w_512, v32u16, 32, 16)
#endif

/* ---- rounded unsigned average ---------------------------------------------------------------------------- */
#define MODEL_PAVG(name, VT, N, W) static inline VT name(VT a, VT b) { VT r; for (int i = 0; i < N; ++i) r.e[i] = (u##W)(((u32)a.e[i] + (u32)b.e[i] + 1) >> 1); return r; }
#ifdef NEED_llvm_x86_sse2_pavg_b
MODEL_PAVG(llvm_x86_sse2_pavg_b, v16u8, 16, 8)
#endif
#ifdef NEED_llvm_x86_sse2_pavg_w
MODEL_PAVG(llvm_x86_sse2_pavg_w, v8u16, 8, 16)
#endif
#ifdef NEED_llvm_x86_avx2_pavg_b
MODEL_PAVG(llvm_x86_avx2_pavg_b, v32u8, 32, 8)
#endif
#ifdef NEED_llvm_x86_avx2_pavg_w
MODEL_PAVG(llvm_x86_avx2_pavg_w, v16u16, 16, 16)
#endif
#ifdef NEED_llvm_x86_avx512_pavg_b_512
MODEL_PAVG(llvm_x86_avx512_pavg_b_512, v64u8, 64, 8)
#endif
#ifdef NEED_llvm_x86_avx512_pavg_w_512
MODEL_PAVG(llvm_x86_avx512_pavg_w_512, v32u16, 32, 16)
#endif

/* ---- variable blends: the most significant bit of each mask lane selects the second operand -------------- */
#define MODEL_BLENDV_I(name, VT, N) static inline VT name(VT a, VT b, VT m) { VT r; for (int i = 0; i < N; ++i) r.e[i] = (m.e[i] & 0x80) ? b.e[i] : a.e[i]; return r; }
#define MODEL_BLENDV_F(name, VT, N, W) static inline VT name(VT a, VT b, VT m) { VT r; for (int i = 0; i < N; ++i) r.e[i] = (F2U##W(m.e[i]) >> (W - 1)) ? b.e[i] : a.e[i]; return r; }
#ifdef NEED_llvm_x86_sse41_pblendvb
MODEL_BLENDV_I(llvm_x86_sse41_pblendvb, v16u8, 16)
#endif
#ifdef NEED_llvm_x86_avx2_pblendvb
MODEL_BLENDV_I(llvm_x86_avx2_pblendvb, v32u8, 32)
#endif
#ifdef NEED_llvm_x86_sse41_blendvps
MODEL_BLENDV_F(llvm_x86_sse41_blendvps, v4f32, 4, 32)
#endif
#ifdef NEED_llvm_x86_sse41_blendvpd
MODEL_BLENDV_F(llvm_x86_sse41_blendvpd, v2f64, 2, 64)
#endif
#ifdef NEED_llvm_x86_avx_blendv_ps_256
MODEL_BLENDV_F(llvm_x86_avx_blendv_ps_256, v8f32, 8, 32)
#endif
#ifdef NEED_llvm_x86_avx_blendv_pd_256
MODEL_BLENDV_F(llvm_x86_avx_blendv_pd_256, v4f64, 4, 64)
#endif

/* ---- AVX-512 down-converts with write mask ------------------------------------------------------------------ */
#ifdef NEED_llvm_x86_avx512_mask_pmov_dw_512
static inline v16u16 llvm_x86_avx512_mask_pmov_dw_512(v16u32 a, v16u16 src, u16 k) {
  v16u16 r; for (int i = 0; i < 16; ++i) r.e[i] = ((k >> i) & 1) ? (u16)a.e[i] : src.e[i]; return r; }
#endif
#ifdef NEED_llvm_x86_avx512_mask_pmov_db_512
static inline v16u8 llvm_x86_avx512_mask_pmov_db_512(v16u32 a, v16u8 src, u16 k) {
  v16u8 r; for (int i = 0; i < 16; ++i) r.e[i] = ((k >> i) & 1) ? (u8)a.e[i] : src.e[i]; return r; }
#endif
#ifdef NEED_llvm_x86_avx512_mask_pmov_wb_512
static inline v32u8 llvm_x86_avx512_mask_pmov_wb_512(v32u16 a, v32u8 src, u32 k) {
  v32u8 r; for (int i = 0; i < 32; ++i) r.e[i] = ((k >> i) & 1) ? (u8)a.e[i] : src.e[i]; return r; }
#endif

#include "ll2c_models2.h"
#include "ll2c_cpu.h"
#endif
