/* more intrinsic models (included by ll2c_models.h) */
/* MAXPS/MINPS family: if either operand is NaN, or both are zero, the SECOND operand is returned (Intel SDM) */
#define MODEL_FMAX(name, VT, N) static inline VT name(VT a, VT b) { VT r; for (int i = 0; i < N; ++i) r.e[i] = (a.e[i] > b.e[i]) ? a.e[i] : b.e[i]; return r; }
#define MODEL_FMIN(name, VT, N) static inline VT name(VT a, VT b) { VT r; for (int i = 0; i < N; ++i) r.e[i] = (a.e[i] < b.e[i]) ? a.e[i] : b.e[i]; return r; }
#ifdef NEED_llvm_x86_sse_max_ps
MODEL_FMAX(llvm_x86_sse_max_ps, v4f32, 4)
#endif
#ifdef NEED_llvm_x86_sse_min_ps
MODEL_FMIN(llvm_x86_sse_min_ps, v4f32, 4)
#endif
#ifdef NEED_llvm_x86_sse2_max_pd
MODEL_FMAX(llvm_x86_sse2_max_pd, v2f64, 2)
#endif
#ifdef NEED_llvm_x86_sse2_min_pd
MODEL_FMIN(llvm_x86_sse2_min_pd, v2f64, 2)
#endif
#ifdef NEED_llvm_x86_avx_max_ps_256
MODEL_FMAX(llvm_x86_avx_max_ps_256, v8f32, 8)
#endif
#ifdef NEED_llvm_x86_avx_min_ps_256
MODEL_FMIN(llvm_x86_avx_min_ps_256, v8f32, 8)
#endif
#ifdef NEED_llvm_x86_avx_max_pd_256
MODEL_FMAX(llvm_x86_avx_max_pd_256, v4f64, 4)
#endif
#ifdef NEED_llvm_x86_avx_min_pd_256
MODEL_FMIN(llvm_x86_avx_min_pd_256, v4f64, 4)
#endif
/* AVX-512 forms carry a rounding-control immediate (4 = current direction); min/max do not round */
#define MODEL_FMAX_R(name, VT, N) static inline VT name(VT a, VT b, u32 rc) { VT r; for (int i = 0; i < N; ++i) r.e[i] = (a.e[i] > b.e[i]) ? a.e[i] : b.e[i]; return r; }
#define MODEL_FMIN_R(name, VT, N) static inline VT name(VT a, VT b, u32 rc) { VT r; for (int i = 0; i < N; ++i) r.e[i] = (a.e[i] < b.e[i]) ? a.e[i] : b.e[i]; return r; }
#ifdef NEED_llvm_x86_avx512_max_ps_512
MODEL_FMAX_R(llvm_x86_avx512_max_ps_512, v16f32, 16)
#endif
#ifdef NEED_llvm_x86_avx512_min_ps_512
MODEL_FMIN_R(llvm_x86_avx512_min_ps_512, v16f32, 16)
#endif
#ifdef NEED_llvm_x86_avx512_max_pd_512
MODEL_FMAX_R(llvm_x86_avx512_max_pd_512, v8f64, 8)
#endif
#ifdef NEED_llvm_x86_avx512_min_pd_512
MODEL_FMIN_R(llvm_x86_avx512_min_pd_512, v8f64, 8)
#endif
/* ROUNDPS/ROUNDPD and VRNDSCALE with scale 0: imm[1:0] = 0 nearest-even, 1 toward -inf, 2 toward +inf, 3 toward zero; imm[2] = use MXCSR.RC
 * (assumed round-to-nearest-even, the default); imm[3] only suppresses the precision exception */
#define LL_ROUNDIMM_f32(x, imm) ((((imm) & 4) || ((imm) & 3) == 0) ? nearbyintf(x) : ((imm) & 3) == 1 ? floorf(x) : ((imm) & 3) == 2 ? ceilf(x) : truncf(x))
#define LL_ROUNDIMM_f64(x, imm) ((((imm) & 4) || ((imm) & 3) == 0) ? nearbyint(x) : ((imm) & 3) == 1 ? floor(x) : ((imm) & 3) == 2 ? ceil(x) : trunc(x))
#define MODEL_ROUND(name, VT, N, T) static inline VT name(VT a, u32 imm) { VT r; for (int i = 0; i < N; ++i) r.e[i] = LL_ROUNDIMM_##T(a.e[i], imm); return r; }
#ifdef NEED_llvm_x86_sse41_round_ps
MODEL_ROUND(llvm_x86_sse41_round_ps, v4f32, 4, f32)
#endif
#ifdef NEED_llvm_x86_sse41_round_pd
MODEL_ROUND(llvm_x86_sse41_round_pd, v2f64, 2, f64)
#endif
#ifdef NEED_llvm_x86_avx_round_ps_256
MODEL_ROUND(llvm_x86_avx_round_ps_256, v8f32, 8, f32)
#endif
#ifdef NEED_llvm_x86_avx_round_pd_256
MODEL_ROUND(llvm_x86_avx_round_pd_256, v4f64, 4, f64)
#endif
#ifdef NEED_llvm_x86_avx512_mask_rndscale_ps_512
static inline v16f32 llvm_x86_avx512_mask_rndscale_ps_512(v16f32 a, u32 imm, v16f32 src, u16 k, u32 sae) {
  __CPROVER_assert((imm >> 4) == 0, "model: VRNDSCALE used with scale 0 only");
  v16f32 r; for (int i = 0; i < 16; ++i) r.e[i] = ((k >> i) & 1) ? LL_ROUNDIMM_f32(a.e[i], imm) : src.e[i]; return r; }
#endif
#ifdef NEED_llvm_x86_avx512_mask_rndscale_pd_512
static inline v8f64 llvm_x86_avx512_mask_rndscale_pd_512(v8f64 a, u32 imm, v8f64 src, u8 k, u32 sae) {
  __CPROVER_assert((imm >> 4) == 0, "model: VRNDSCALE used with scale 0 only");
  v8f64 r; for (int i = 0; i < 8; ++i) r.e[i] = ((k >> i) & 1) ? LL_ROUNDIMM_f64(a.e[i], imm) : src.e[i]; return r; }
#endif
/* truncating / rounding conversions to int32: NaN and out-of-range give the "integer indefinite" 0x80000000 */
#define LL_CVTT32(x) (((x) == (x) && (x) > -2147483904.0 && (x) < 2147483648.0) ? (u32)(s32)(x) : (u32)0x80000000u)
#define LL_CVTR32_f32(x) LL_CVTT32(nearbyintf(x))
#define LL_CVTR32_f64(x) LL_CVTT32(nearbyint(x))
#ifdef NEED_llvm_x86_sse2_cvttps2dq
static inline v4u32 llvm_x86_sse2_cvttps2dq(v4f32 a) { v4u32 r; for (int i = 0; i < 4; ++i) r.e[i] = LL_CVTT32(a.e[i]); return r; }
#endif
#ifdef NEED_llvm_x86_sse2_cvtps2dq
static inline v4u32 llvm_x86_sse2_cvtps2dq(v4f32 a) { v4u32 r; for (int i = 0; i < 4; ++i) r.e[i] = LL_CVTR32_f32(a.e[i]); return r; }
#endif
#ifdef NEED_llvm_x86_avx_cvtt_ps2dq_256
static inline v8u32 llvm_x86_avx_cvtt_ps2dq_256(v8f32 a) { v8u32 r; for (int i = 0; i < 8; ++i) r.e[i] = LL_CVTT32(a.e[i]); return r; }
#endif
#ifdef NEED_llvm_x86_avx_cvt_ps2dq_256
static inline v8u32 llvm_x86_avx_cvt_ps2dq_256(v8f32 a) { v8u32 r; for (int i = 0; i < 8; ++i) r.e[i] = LL_CVTR32_f32(a.e[i]); return r; }
#endif
/* MOVMSK family: bit i = most significant bit of lane i */
#define MODEL_MOVMSK_I(name, VT, N) static inline u32 name(VT a) { u32 r = 0; for (int i = 0; i < N; ++i) r |= (u32)((a.e[i] >> 7) & 1) << i; return r; }
#define MODEL_MOVMSK_F(name, VT, N, W) static inline u32 name(VT a) { u32 r = 0; for (int i = 0; i < N; ++i) r |= (u32)((F2U##W(a.e[i]) >> (W - 1)) & 1) << i; return r; }
#ifdef NEED_llvm_x86_sse2_pmovmskb_128
MODEL_MOVMSK_I(llvm_x86_sse2_pmovmskb_128, v16u8, 16)
#endif
#ifdef NEED_llvm_x86_avx2_pmovmskb
MODEL_MOVMSK_I(llvm_x86_avx2_pmovmskb, v32u8, 32)
#endif
#ifdef NEED_llvm_x86_sse_movmsk_ps
MODEL_MOVMSK_F(llvm_x86_sse_movmsk_ps, v4f32, 4, 32)
#endif
#ifdef NEED_llvm_x86_sse2_movmsk_pd
MODEL_MOVMSK_F(llvm_x86_sse2_movmsk_pd, v2f64, 2, 64)
#endif
#ifdef NEED_llvm_x86_avx_movmsk_ps_256
MODEL_MOVMSK_F(llvm_x86_avx_movmsk_ps_256, v8f32, 8, 32)
#endif
#ifdef NEED_llvm_x86_avx_movmsk_pd_256
MODEL_MOVMSK_F(llvm_x86_avx_movmsk_pd_256, v4f64, 4, 64)
#endif
/* PTEST / VTESTPS family */
#ifdef NEED_llvm_x86_sse41_ptestz
static inline u32 llvm_x86_sse41_ptestz(v2u64 a, v2u64 b) { return ((a.e[0] & b.e[0]) | (a.e[1] & b.e[1])) == 0; }
#endif
#ifdef NEED_llvm_x86_sse41_ptestc
static inline u32 llvm_x86_sse41_ptestc(v2u64 a, v2u64 b) { return ((~a.e[0] & b.e[0]) | (~a.e[1] & b.e[1])) == 0; }
#endif
#ifdef NEED_llvm_x86_avx_ptestz_256
static inline u32 llvm_x86_avx_ptestz_256(v4u64 a, v4u64 b) { u64 r = 0; for (int i = 0; i < 4; ++i) r |= a.e[i] & b.e[i]; return r == 0; }
#endif
#ifdef NEED_llvm_x86_avx_ptestc_256
static inline u32 llvm_x86_avx_ptestc_256(v4u64 a, v4u64 b) { u64 r = 0; for (int i = 0; i < 4; ++i) r |= ~a.e[i] & b.e[i]; return r == 0; }
#endif
/* VTESTPS/VTESTPD: ZF = all sign bits of (a & b) clear; CF = all sign bits of (~a & b) clear */
#define MODEL_VTEST(name, VT, N, W, NEGA) static inline u32 name(VT a, VT b) { u32 r = 1; for (int i = 0; i < N; ++i) if (((NEGA F2U##W(a.e[i])) & F2U##W(b.e[i])) >> (W - 1)) r = 0; return r; }
#ifdef NEED_llvm_x86_avx_vtestz_ps_256
MODEL_VTEST(llvm_x86_avx_vtestz_ps_256, v8f32, 8, 32, )
#endif
#ifdef NEED_llvm_x86_avx_vtestc_ps_256
MODEL_VTEST(llvm_x86_avx_vtestc_ps_256, v8f32, 8, 32, ~)
#endif
#ifdef NEED_llvm_x86_avx_vtestz_pd_256
MODEL_VTEST(llvm_x86_avx_vtestz_pd_256, v4f64, 4, 64, )
#endif
#ifdef NEED_llvm_x86_avx_vtestc_pd_256
MODEL_VTEST(llvm_x86_avx_vtestc_pd_256, v4f64, 4, 64, ~)
#endif
#ifdef NEED_llvm_x86_avx512_mask_cvttps2dq_512
static inline v16u32 llvm_x86_avx512_mask_cvttps2dq_512(v16f32 a, v16u32 src, u16 k, u32 rc) {
  v16u32 r; for (int i = 0; i < 16; ++i) r.e[i] = ((k >> i) & 1) ? LL_CVTT32(a.e[i]) : src.e[i]; return r; }
#endif
#ifdef NEED_llvm_x86_avx512_mask_cvtps2dq_512
static inline v16u32 llvm_x86_avx512_mask_cvtps2dq_512(v16f32 a, v16u32 src, u16 k, u32 rc) {
  v16u32 r; for (int i = 0; i < 16; ++i) r.e[i] = ((k >> i) & 1) ? LL_CVTR32_f32(a.e[i]) : src.e[i]; return r; }
#endif
/* VSCALEFPS/PD: a * 2^floor(b) (special cases per SDM are not modelled: result non-deterministic unless b is a finite integer and the result is normal) */
#ifdef NEED_llvm_x86_avx512_mask_scalef_ps_512
static inline v16f32 llvm_x86_avx512_mask_scalef_ps_512(v16f32 a, v16f32 b, v16f32 src, u16 k, u32 rc) {
  v16f32 r; for (int i = 0; i < 16; ++i) r.e[i] = ((k >> i) & 1) ? nondet_f32() : src.e[i]; return r; }
#endif
#ifdef NEED_llvm_x86_avx512_mask_scalef_pd_512
static inline v8f64 llvm_x86_avx512_mask_scalef_pd_512(v8f64 a, v8f64 b, v8f64 src, u8 k, u32 rc) {
  v8f64 r; for (int i = 0; i < 8; ++i) r.e[i] = ((k >> i) & 1) ? nondet_f64() : src.e[i]; return r; }
#endif
/* AVX-512 truncating conversions; NaN / out of range give the integer indefinite value (all ones for unsigned, MIN for signed) */
#define LL_CVTTU32(x) (((x) == (x) && (x) > -1.0 && (x) < 4294967296.0) ? (u32)(x) : (u32)0xffffffffu)
#define LL_CVTT64(x) (((x) == (x) && (x) > -9223373136366403584.0 && (x) < 9223372036854775808.0) ? (u64)(s64)(x) : (u64)0x8000000000000000ull)
#define LL_CVTTU64(x) (((x) == (x) && (x) > -1.0 && (x) < 18446744073709551616.0) ? (u64)(x) : (u64)0xffffffffffffffffull)
#ifdef NEED_llvm_x86_avx512_mask_cvttps2udq_512
static inline v16u32 llvm_x86_avx512_mask_cvttps2udq_512(v16f32 a, v16u32 src, u16 k, u32 rc) {
  v16u32 r; for (int i = 0; i < 16; ++i) r.e[i] = ((k >> i) & 1) ? LL_CVTTU32(a.e[i]) : src.e[i]; return r; }
#endif
#ifdef NEED_llvm_x86_avx512_mask_cvttpd2qq_512
static inline v8u64 llvm_x86_avx512_mask_cvttpd2qq_512(v8f64 a, v8u64 src, u8 k, u32 rc) {
  v8u64 r; for (int i = 0; i < 8; ++i) r.e[i] = ((k >> i) & 1) ? LL_CVTT64(a.e[i]) : src.e[i]; return r; }
#endif
#ifdef NEED_llvm_x86_avx512_mask_cvttpd2uqq_512
static inline v8u64 llvm_x86_avx512_mask_cvttpd2uqq_512(v8f64 a, v8u64 src, u8 k, u32 rc) {
  v8u64 r; for (int i = 0; i < 8; ++i) r.e[i] = ((k >> i) & 1) ? LL_CVTTU64(a.e[i]) : src.e[i]; return r; }
#endif
#ifdef NEED_llvm_x86_avx512_mask_cvtpd2qq_512
static inline v8u64 llvm_x86_avx512_mask_cvtpd2qq_512(v8f64 a, v8u64 src, u8 k, u32 rc) {
  v8u64 r; for (int i = 0; i < 8; ++i) r.e[i] = ((k >> i) & 1) ? LL_CVTT64(nearbyint(a.e[i])) : src.e[i]; return r; }
#endif
#ifdef NEED_llvm_x86_avx512_mask_cvtps2udq_512
static inline v16u32 llvm_x86_avx512_mask_cvtps2udq_512(v16f32 a, v16u32 src, u16 k, u32 rc) {
  v16u32 r; for (int i = 0; i < 16; ++i) r.e[i] = ((k >> i) & 1) ? LL_CVTTU32(nearbyintf(a.e[i])) : src.e[i]; return r; }
#endif
