/* more intrinsic models (included by ll2c_models.h) */
/* MAXPS/MINPS family: if either operand is NaN, or both are zero, the SECOND operand is returned (Intel SDM) */
#define MODEL_FMAX(name, VT, N) static inline VT name(VT a, VT b) { VT r; for (int i = 0; i < N; ++i) r.e[i] = (a.e[i] > b.e[i]) ? a.e[i] : b.e[i]; return r; }
#define MODEL_FMIN(name, VT, N) static inline VT name(VT a, VT b) { VT r; for (int i = 0; i < N; ++i) r.e[i] = (a.e[i] < b.e[i]) ? a.e[i] : b.e[i]; return r; }
#ifdef NEED_llvm_x86_sse_max_ps
MODEL_FMAX(llvm_x86_sse_max_ps, v4f32, 4)
#endif
#ifdef NEED_llvm_x86_sse_min_ps
MODEL_FMIN(llvm_x86_sse_min_ps, v4f32, 4)
#endif
#ifdef NEED_llvm_x86_sse2_max_pd
MODEL_FMAX(llvm_x86_sse2_max_pd, v2f64, 2)
#endif
#ifdef NEED_llvm_x86_sse2_min_pd
MODEL_FMIN(llvm_x86_sse2_min_pd, v2f64, 2)
#endif
#ifdef NEED_llvm_x86_avx_max_ps_256
MODEL_FMAX(llvm_x86_avx_max_ps_256, v8f32, 8)
#endif
#ifdef NEED_llvm_x86_avx_min_ps_256
MODEL_FMIN(llvm_x86_avx_min_ps_256, v8f32, 8)
#endif
#ifdef NEED_llvm_x86_avx_max_pd_256
MODEL_FMAX(llvm_x86_avx_max_pd_256, v4f64, 4)
#endif
#ifdef NEED_llvm_x86_avx_min_pd_256
MODEL_FMIN(llvm_x86_avx_min_pd_256, v4f64, 4)
#endif
/* AVX-512 forms carry a rounding-control immediate (4 = current direction); min/max do not round */
#define MODEL_FMAX_R(name, VT, N) static inline VT name(VT a, VT b, u32 rc) { VT r; for (int i = 0; i < N; ++i) r.e[i] = (a.e[i] > b.e[i]) ? a.e[i] : b.e[i]; return r; }
#define MODEL_FMIN_R(name, VT, N) static inline VT name(VT a, VT b, u32 rc) { VT r; for (int i = 0; i < N; ++i) r.e[i] = (a.e[i] < b.e[i]) ? a.e[i] : b.e[i]; return r; }
#ifdef NEED_llvm_x86_avx512_max_ps_512
MODEL_FMAX_R(llvm_x86_avx512_max_ps_512, v16f32, 16)
#endif
#ifdef NEED_llvm_x86_avx512_min_ps_512
MODEL_FMIN_R(llvm_x86_avx512_min_ps_512, v16f32, 16)
#endif
#ifdef NEED_llvm_x86_avx512_max_pd_512
MODEL_FMAX_R(llvm_x86_avx512_max_pd_512, v8f64, 8)
#endif
#ifdef NEED_llvm_x86_avx512_min_pd_512
MODEL_FMIN_R(llvm_x86_avx512_min_pd_512, v8f64, 8)
#endif
