/* more intrinsic models (included by ll2c_models.h) */
/* MAXPS/MINPS family: if either operand is NaN, or both are zero, the SECOND operand is returned (Intel SDM) */
#define MODEL_FMAX(name, VT, N) static inline VT name(VT a, VT b) { VT r; for (int i = 0; i < N; ++i) r.e[i] = (a.e[i] > b.e[i]) ? a.e[i] : b.e[i]; return r; }
#define MODEL_FMIN(name, VT, N) static inline VT name(VT a, VT b) { VT r; for (int i = 0; i < N; ++i) r.e[i] = (a.e[i] < b.e[i]) ? a.e[i] : b.e[i]; return r; }
#ifdef NEED_llvm_x86_sse_max_ps
MODEL_FMAX(llvm_x86_sse_max_ps, v4f32, 4)
#endif
#ifdef NEED_llvm_x86_sse_min_ps
MODEL_FMIN(llvm_x86_sse_min_ps, v4f32, 4)
#endif
#ifdef NEED_llvm_x86_sse2_max_pd
MODEL_FMAX(llvm_x86_sse2_max_pd, v2f64, 2)
#endif
#ifdef NEED_llvm_x86_sse2_min_pd
MODEL_FMIN(llvm_x86_sse2_min_pd, v2f64, 2)
#endif
#ifdef NEED_llvm_x86_avx_max_ps_256
MODEL_FMAX(llvm_x86_avx_max_ps_256, v8f32, 8)
#endif
#ifdef NEED_llvm_x86_avx_min_ps_256
MODEL_FMIN(llvm_x86_avx_min_ps_256, v8f32, 8)
#endif
#ifdef NEED_llvm_x86_avx_max_pd_256
MODEL_FMAX(llvm_x86_avx_max_pd_256, v4f64, 4)
#endif
#ifdef NEED_llvm_x86_avx_min_pd_256
MODEL_FMIN(llvm_x86_avx_min_pd_256, v4f64, 4)
#endif
/* AVX-512 forms carry a rounding-control immediate (4 = current direction); min/max do not round */
#define MODEL_FMAX_R(name, VT, N) static inline VT name(VT a, VT b, u32 rc) { VT r; for (int i = 0; i < N; ++i) r.e[i] = (a.e[i] > b.e[i]) ? a.e[i] : b.e[i]; return r; }
#define MODEL_FMIN_R(name, VT, N) static inline VT name(VT a, VT b, u32 rc) { VT r; for (int i = 0; i < N; ++i) r.e[i] = (a.e[i] < b.e[i]) ? a.e[i] : b.e[i]; return r; }
#ifdef NEED_llvm_x86_avx512_max_ps_512
MODEL_FMAX_R(llvm_x86_avx512_max_ps_512, v16f32, 16)
#endif
#ifdef NEED_llvm_x86_avx512_min_ps_512
MODEL_FMIN_R(llvm_x86_avx512_min_ps_512, v16f32, 16)
#endif
#ifdef NEED_llvm_x86_avx512_max_pd_512
MODEL_FMAX_R(llvm_x86_avx512_max_pd_512, v8f64, 8)
#endif
#ifdef NEED_llvm_x86_avx512_min_pd_512
MODEL_FMIN_R(llvm_x86_avx512_min_pd_512, v8f64, 8)
#endif
/* ROUNDPS/ROUNDPD and VRNDSCALE with scale 0: imm[1:0] = 0 nearest-even, 1 toward -inf, 2 toward +inf, 3 toward zero; imm[2] = use MXCSR.RC
 * (assumed round-to-nearest-even, the default); imm[3] only suppresses the precision exception */
#define LL_ROUNDIMM_f32(x, imm) ((((imm) & 4) || ((imm) & 3) == 0) ? nearbyintf(x) : ((imm) & 3) == 1 ? floorf(x) : ((imm) & 3) == 2 ? ceilf(x) : truncf(x))
#define LL_ROUNDIMM_f64(x, imm) ((((imm) & 4) || ((imm) & 3) == 0) ? nearbyint(x) : ((imm) & 3) == 1 ? floor(x) : ((imm) & 3) == 2 ? ceil(x) : trunc(x))
#define MODEL_ROUND(name, VT, N, T) static inline VT name(VT a, u32 imm) { VT r; for (int i = 0; i < N; ++i) r.e[i] = LL_ROUNDIMM_##T(a.e[i], imm); return r; }
#ifdef NEED_llvm_x86_sse41_round_ps
MODEL_ROUND(llvm_x86_sse41_round_ps, v4f32, 4, f32)
#endif
#ifdef NEED_llvm_x86_sse41_round_pd
MODEL_ROUND(llvm_x86_sse41_round_pd, v2f64, 2, f64)
#endif
#ifdef NEED_llvm_x86_avx_round_ps_256
MODEL_ROUND(llvm_x86_avx_round_ps_256, v8f32, 8, f32)
#endif
#ifdef NEED_llvm_x86_avx_round_pd_256
MODEL_ROUND(llvm_x86_avx_round_pd_256, v4f64, 4, f64)
#endif
#ifdef NEED_llvm_x86_avx512_mask_rndscale_ps_512
static inline v16f32 llvm_x86_avx512_mask_rndscale_ps_512(v16f32 a, u32 imm, v16f32 src, u16 k, u32 sae) {
  __CPROVER_assert((imm >> 4) == 0, "model: VRNDSCALE used with scale 0 only");
  v16f32 r; for (int i = 0; i < 16; ++i) r.e[i] = ((k >> i) & 1) ? LL_ROUNDIMM_f32(a.e[i], imm) : src.e[i]; return r; }
#endif
#ifdef NEED_llvm_x86_avx512_mask_rndscale_pd_512
static inline v8f64 llvm_x86_avx512_mask_rndscale_pd_512(v8f64 a, u32 imm, v8f64 src, u8 k, u32 sae) {
  __CPROVER_assert((imm >> 4) == 0, "model: VRNDSCALE used with scale 0 only");
  v8f64 r; for (int i = 0; i < 8; ++i) r.e[i] = ((k >> i) & 1) ? LL_ROUNDIMM_f64(a.e[i], imm) : src.e[i]; return r; }
#endif
/* truncating / rounding conversions to int32: NaN and out-of-range give the "integer indefinite" 0x80000000 */
#define LL_CVTT32(x) (((x) == (x) && (x) > -2147483904.0 && (x) < 2147483648.0) ? (u32)(s32)(x) : (u32)0x80000000u)
#define LL_CVTR32_f32(x) LL_CVTT32(nearbyintf(x))
#define LL_CVTT32_D(x) (((x) == (x) && (x) > -2147483649.0 && (x) < 2147483648.0) ? (u32)(s32)(x) : (u32)0x80000000u)
#define LL_CVTR32_f64(x) LL_CVTT32_D(nearbyint(x))
#ifdef NEED_llvm_x86_sse2_cvttps2dq
static inline v4u32 llvm_x86_sse2_cvttps2dq(v4f32 a) { v4u32 r; for (int i = 0; i < 4; ++i) r.e[i] = LL_CVTT32(a.e[i]); return r; }
#endif
#ifdef NEED_llvm_x86_sse2_cvtps2dq
static inline v4u32 llvm_x86_sse2_cvtps2dq(v4f32 a) { v4u32 r; for (int i = 0; i < 4; ++i) r.e[i] = LL_CVTR32_f32(a.e[i]); return r; }
#endif
/* CVTPD2DQ / CVTTPD2DQ: two doubles -> two int32 in the low half, upper half zero (SDM) */
#ifdef NEED_llvm_x86_sse2_cvtpd2dq
static inline v4u32 llvm_x86_sse2_cvtpd2dq(v2f64 a) { v4u32 r; r.e[0] = LL_CVTR32_f64(a.e[0]); r.e[1] = LL_CVTR32_f64(a.e[1]); r.e[2] = 0; r.e[3] = 0; return r; }
#endif
#ifdef NEED_llvm_x86_sse2_cvttpd2dq
static inline v4u32 llvm_x86_sse2_cvttpd2dq(v2f64 a) { v4u32 r; r.e[0] = LL_CVTT32_D(a.e[0]); r.e[1] = LL_CVTT32_D(a.e[1]); r.e[2] = 0; r.e[3] = 0; return r; }
#endif
#ifdef NEED_llvm_x86_avx_cvtt_ps2dq_256
static inline v8u32 llvm_x86_avx_cvtt_ps2dq_256(v8f32 a) { v8u32 r; for (int i = 0; i < 8; ++i) r.e[i] = LL_CVTT32(a.e[i]); return r; }
#endif
#ifdef NEED_llvm_x86_avx_cvt_ps2dq_256
static inline v8u32 llvm_x86_avx_cvt_ps2dq_256(v8f32 a) { v8u32 r; for (int i = 0; i < 8; ++i) r.e[i] = LL_CVTR32_f32(a.e[i]); return r; }
#endif
/* MOVMSK family: bit i = most significant bit of lane i */
#define MODEL_MOVMSK_I(name, VT, N) static inline u32 name(VT a) { u32 r = 0; for (int i = 0; i < N; ++i) r |= (u32)((a.e[i] >> 7) & 1) << i; return r; }
#define MODEL_MOVMSK_F(name, VT, N, W) static inline u32 name(VT a) { u32 r = 0; for (int i = 0; i < N; ++i) r |= (u32)((F2U##W(a.e[i]) >> (W - 1)) & 1) << i; return r; }
#ifdef NEED_llvm_x86_sse2_pmovmskb_128
MODEL_MOVMSK_I(llvm_x86_sse2_pmovmskb_128, v16u8, 16)
#endif
#ifdef NEED_llvm_x86_avx2_pmovmskb
MODEL_MOVMSK_I(llvm_x86_avx2_pmovmskb, v32u8, 32)
#endif
#ifdef NEED_llvm_x86_sse_movmsk_ps
MODEL_MOVMSK_F(llvm_x86_sse_movmsk_ps, v4f32, 4, 32)
#endif
#ifdef NEED_llvm_x86_sse2_movmsk_pd
MODEL_MOVMSK_F(llvm_x86_sse2_movmsk_pd, v2f64, 2, 64)
#endif
#ifdef NEED_llvm_x86_avx_movmsk_ps_256
MODEL_MOVMSK_F(llvm_x86_avx_movmsk_ps_256, v8f32, 8, 32)
#endif
#ifdef NEED_llvm_x86_avx_movmsk_pd_256
MODEL_MOVMSK_F(llvm_x86_avx_movmsk_pd_256, v4f64, 4, 64)
#endif
/* PTEST / VTESTPS family */
#ifdef NEED_llvm_x86_sse41_ptestz
static inline u32 llvm_x86_sse41_ptestz(v2u64 a, v2u64 b) { return ((a.e[0] & b.e[0]) | (a.e[1] & b.e[1])) == 0; }
#endif
#ifdef NEED_llvm_x86_sse41_ptestc
static inline u32 llvm_x86_sse41_ptestc(v2u64 a, v2u64 b) { return ((~a.e[0] & b.e[0]) | (~a.e[1] & b.e[1])) == 0; }
#endif
#ifdef NEED_llvm_x86_avx_ptestz_256
static inline u32 llvm_x86_avx_ptestz_256(v4u64 a, v4u64 b) { u64 r = 0; for (int i = 0; i < 4; ++i) r |= a.e[i] & b.e[i]; return r == 0; }
#endif
#ifdef NEED_llvm_x86_avx_ptestc_256
static inline u32 llvm_x86_avx_ptestc_256(v4u64 a, v4u64 b) { u64 r = 0; for (int i = 0; i < 4; ++i) r |= ~a.e[i] & b.e[i]; return r == 0; }
#endif
/* VTESTPS/VTESTPD: ZF = all sign bits of (a & b) clear; CF = all sign bits of (~a & b) clear */
#define MODEL_VTEST(name, VT, N, W, NEGA) static inline u32 name(VT a, VT b) { u32 r = 1; for (int i = 0; i < N; ++i) if (((NEGA F2U##W(a.e[i])) & F2U##W(b.e[i])) >> (W - 1)) r = 0; return r; }
#ifdef NEED_llvm_x86_avx_vtestz_ps_256
MODEL_VTEST(llvm_x86_avx_vtestz_ps_256, v8f32, 8, 32, )
#endif
#ifdef NEED_llvm_x86_avx_vtestc_ps_256
MODEL_VTEST(llvm_x86_avx_vtestc_ps_256, v8f32, 8, 32, ~)
#endif
#ifdef NEED_llvm_x86_avx_vtestz_pd_256
MODEL_VTEST(llvm_x86_avx_vtestz_pd_256, v4f64, 4, 64, )
#endif
#ifdef NEED_llvm_x86_avx_vtestc_pd_256
MODEL_VTEST(llvm_x86_avx_vtestc_pd_256, v4f64, 4, 64, ~)
#endif
#ifdef NEED_llvm_x86_avx512_mask_cvttps2dq_512
static inline v16u32 llvm_x86_avx512_mask_cvttps2dq_512(v16f32 a, v16u32 src, u16 k, u32 rc) {
  v16u32 r; for (int i = 0; i < 16; ++i) r.e[i] = ((k >> i) & 1) ? LL_CVTT32(a.e[i]) : src.e[i]; return r; }
#endif
#ifdef NEED_llvm_x86_avx512_mask_cvtps2dq_512
static inline v16u32 llvm_x86_avx512_mask_cvtps2dq_512(v16f32 a, v16u32 src, u16 k, u32 rc) {
  v16u32 r; for (int i = 0; i < 16; ++i) r.e[i] = ((k >> i) & 1) ? LL_CVTR32_f32(a.e[i]) : src.e[i]; return r; }
#endif
/* VSCALEFPS/PD: a * 2^floor(b), rounded once.  Modelled for the current rounding direction (rc == 4) when b is a finite integer in the
 * normal exponent range: the product of a and the exactly representable power of two (one IEEE multiplication; gradual underflow and
 * overflow of the result included).  Every other case (static rounding override, b outside the range, special cases per SDM) is not
 * modelled: the result is non-deterministic. */
#ifdef NEED_llvm_x86_avx512_mask_scalef_ps_512
static inline v16f32 llvm_x86_avx512_mask_scalef_ps_512(v16f32 a, v16f32 b, v16f32 src, u16 k, u32 rc) {
  v16f32 r; for (int i = 0; i < 16; ++i) { f32 e = b.e[i]; _Bool ok = rc == 4 && e >= -126.0f && e <= 127.0f && e == (f32)(s32)e;
    r.e[i] = ((k >> i) & 1) ? (ok ? FMUL_f32(a.e[i], U2F32((u32)((s32)e + 127) << 23)) : nondet_f32()) : src.e[i]; } return r; }
#endif
#ifdef NEED_llvm_x86_avx512_mask_scalef_pd_512
static inline v8f64 llvm_x86_avx512_mask_scalef_pd_512(v8f64 a, v8f64 b, v8f64 src, u8 k, u32 rc) {
  v8f64 r; for (int i = 0; i < 8; ++i) { f64 e = b.e[i]; _Bool ok = rc == 4 && e >= -1022.0 && e <= 1023.0 && e == (f64)(s32)e;
    r.e[i] = ((k >> i) & 1) ? (ok ? FMUL_f64(a.e[i], U2F64((u64)((s64)(s32)e + 1023) << 52)) : nondet_f64()) : src.e[i]; } return r; }
#endif
/* AVX-512 truncating conversions; NaN / out of range give the integer indefinite value (all ones for unsigned, MIN for signed) */
#define LL_CVTTU32(x) (((x) == (x) && (x) > -1.0 && (x) < 4294967296.0) ? (u32)(x) : (u32)0xffffffffu)
#define LL_CVTT64(x) (((x) == (x) && (x) > -9223373136366403584.0 && (x) < 9223372036854775808.0) ? (u64)(s64)(x) : (u64)0x8000000000000000ull)
#define LL_CVTTU64(x) (((x) == (x) && (x) > -1.0 && (x) < 18446744073709551616.0) ? (u64)(x) : (u64)0xffffffffffffffffull)
#ifdef NEED_llvm_x86_avx512_mask_cvttps2udq_512
static inline v16u32 llvm_x86_avx512_mask_cvttps2udq_512(v16f32 a, v16u32 src, u16 k, u32 rc) {
  v16u32 r; for (int i = 0; i < 16; ++i) r.e[i] = ((k >> i) & 1) ? LL_CVTTU32(a.e[i]) : src.e[i]; return r; }
#endif
#ifdef NEED_llvm_x86_avx512_mask_cvttpd2qq_512
static inline v8u64 llvm_x86_avx512_mask_cvttpd2qq_512(v8f64 a, v8u64 src, u8 k, u32 rc) {
  v8u64 r; for (int i = 0; i < 8; ++i) r.e[i] = ((k >> i) & 1) ? LL_CVTT64(a.e[i]) : src.e[i]; return r; }
#endif
#ifdef NEED_llvm_x86_avx512_mask_cvttpd2uqq_512
static inline v8u64 llvm_x86_avx512_mask_cvttpd2uqq_512(v8f64 a, v8u64 src, u8 k, u32 rc) {
  v8u64 r; for (int i = 0; i < 8; ++i) r.e[i] = ((k >> i) & 1) ? LL_CVTTU64(a.e[i]) : src.e[i]; return r; }
#endif
#ifdef NEED_llvm_x86_avx512_mask_cvtpd2qq_512
static inline v8u64 llvm_x86_avx512_mask_cvtpd2qq_512(v8f64 a, v8u64 src, u8 k, u32 rc) {
  v8u64 r; for (int i = 0; i < 8; ++i) r.e[i] = ((k >> i) & 1) ? LL_CVTT64(nearbyint(a.e[i])) : src.e[i]; return r; }
#endif
#ifdef NEED_llvm_x86_avx512_mask_cvtps2udq_512
static inline v16u32 llvm_x86_avx512_mask_cvtps2udq_512(v16f32 a, v16u32 src, u16 k, u32 rc) {
  v16u32 r; for (int i = 0; i < 16; ++i) r.e[i] = ((k >> i) & 1) ? LL_CVTTU32(nearbyintf(a.e[i])) : src.e[i]; return r; }
#endif
/* ---- byte / lane permutes ------------------------------------------------------------------------------------------------ */
/* PSHUFB: per 128-bit lane; index bit 7 set -> 0, else low 4 bits select a byte of the same lane */
#define MODEL_PSHUFB(name, VT, N) static inline VT name(VT a, VT b) { VT r; for (int i = 0; i < N; ++i) r.e[i] = (b.e[i] & 0x80) ? 0 : a.e[(i & ~15) + (b.e[i] & 15)]; return r; }
#ifdef NEED_llvm_x86_ssse3_pshuf_b_128
MODEL_PSHUFB(llvm_x86_ssse3_pshuf_b_128, v16u8, 16)
#endif
#ifdef NEED_llvm_x86_avx2_pshuf_b
MODEL_PSHUFB(llvm_x86_avx2_pshuf_b, v32u8, 32)
#endif
#ifdef NEED_llvm_x86_avx512_pshuf_b_512
MODEL_PSHUFB(llvm_x86_avx512_pshuf_b_512, v64u8, 64)
#endif
/* VPERM* with a full-width index vector: out[i] = a[idx[i] mod N] */
#define MODEL_PERMVAR(name, VT, IT, N) static inline VT name(VT a, IT idx) { VT r; for (int i = 0; i < N; ++i) r.e[i] = a.e[idx.e[i] & (N - 1)]; return r; }
#ifdef NEED_llvm_x86_avx2_permd
MODEL_PERMVAR(llvm_x86_avx2_permd, v8u32, v8u32, 8)
#endif
#ifdef NEED_llvm_x86_avx2_permps
MODEL_PERMVAR(llvm_x86_avx2_permps, v8f32, v8u32, 8)
#endif
#ifdef NEED_llvm_x86_avx512_permvar_qi_512
MODEL_PERMVAR(llvm_x86_avx512_permvar_qi_512, v64u8, v64u8, 64)
#endif
#ifdef NEED_llvm_x86_avx512_permvar_hi_512
MODEL_PERMVAR(llvm_x86_avx512_permvar_hi_512, v32u16, v32u16, 32)
#endif
#ifdef NEED_llvm_x86_avx512_permvar_si_512
MODEL_PERMVAR(llvm_x86_avx512_permvar_si_512, v16u32, v16u32, 16)
#endif
#ifdef NEED_llvm_x86_avx512_permvar_sf_512
MODEL_PERMVAR(llvm_x86_avx512_permvar_sf_512, v16f32, v16u32, 16)
#endif
#ifdef NEED_llvm_x86_avx512_permvar_di_512
MODEL_PERMVAR(llvm_x86_avx512_permvar_di_512, v8u64, v8u64, 8)
#endif
#ifdef NEED_llvm_x86_avx512_permvar_df_512
MODEL_PERMVAR(llvm_x86_avx512_permvar_df_512, v8f64, v8u64, 8)
#endif
#ifdef NEED_llvm_x86_avx512_permvar_di_256
MODEL_PERMVAR(llvm_x86_avx512_permvar_di_256, v4u64, v4u64, 4)
#endif
#ifdef NEED_llvm_x86_avx512_permvar_df_256
MODEL_PERMVAR(llvm_x86_avx512_permvar_df_256, v4f64, v4u64, 4)
#endif
/* VPERMILPS/PD with variable control: within each 128-bit lane */
#ifdef NEED_llvm_x86_avx_vpermilvar_ps_256
static inline v8f32 llvm_x86_avx_vpermilvar_ps_256(v8f32 a, v8u32 c) { v8f32 r; for (int i = 0; i < 8; ++i) r.e[i] = a.e[(i & ~3) + (c.e[i] & 3)]; return r; }
#endif
#ifdef NEED_llvm_x86_avx_vpermilvar_ps
static inline v4f32 llvm_x86_avx_vpermilvar_ps(v4f32 a, v4u32 c) { v4f32 r; for (int i = 0; i < 4; ++i) r.e[i] = a.e[c.e[i] & 3]; return r; }
#endif
#ifdef NEED_llvm_x86_avx_vpermilvar_pd_256
static inline v4f64 llvm_x86_avx_vpermilvar_pd_256(v4f64 a, v4u64 c) { v4f64 r; for (int i = 0; i < 4; ++i) r.e[i] = a.e[(i & ~1) + ((c.e[i] >> 1) & 1)]; return r; }
#endif
#ifdef NEED_llvm_x86_avx_vpermilvar_pd
static inline v2f64 llvm_x86_avx_vpermilvar_pd(v2f64 a, v2u64 c) { v2f64 r; for (int i = 0; i < 2; ++i) r.e[i] = a.e[(c.e[i] >> 1) & 1]; return r; }
#endif
/* VPERMI2*: index selects from the concatenation (a, b) */
#define MODEL_PERMI2(name, VT, IT, N) static inline VT name(VT a, IT idx, VT b) { VT r; for (int i = 0; i < N; ++i) r.e[i] = (idx.e[i] & N) ? b.e[idx.e[i] & (N - 1)] : a.e[idx.e[i] & (N - 1)]; return r; }
#ifdef NEED_llvm_x86_avx512_vpermi2var_q_512
MODEL_PERMI2(llvm_x86_avx512_vpermi2var_q_512, v8u64, v8u64, 8)
#endif
#ifdef NEED_llvm_x86_avx512_vpermi2var_d_512
MODEL_PERMI2(llvm_x86_avx512_vpermi2var_d_512, v16u32, v16u32, 16)
#endif
#ifdef NEED_llvm_x86_avx512_vpermi2var_pd_512
MODEL_PERMI2(llvm_x86_avx512_vpermi2var_pd_512, v8f64, v8u64, 8)
#endif
#ifdef NEED_llvm_x86_avx512_vpermi2var_ps_512
MODEL_PERMI2(llvm_x86_avx512_vpermi2var_ps_512, v16f32, v16u32, 16)
#endif
/* VPCOMPRESS / VPEXPAND (register forms): compress packs the selected lanes to the low positions, the rest comes from src;
 * expand places consecutive low lanes of a into the selected positions, the rest comes from src */
#define MODEL_COMPRESS(name, VT, N, KT) static inline VT name(VT a, VT src, KT k) { VT r = src; int c = 0; for (int i = 0; i < N; ++i) if ((k >> i) & 1) { r.e[c] = a.e[i]; ++c; } return r; }
#define MODEL_EXPAND(name, VT, N, KT) static inline VT name(VT a, VT src, KT k) { VT r = src; int c = 0; for (int i = 0; i < N; ++i) if ((k >> i) & 1) { r.e[i] = a.e[c]; ++c; } return r; }
#ifdef NEED_llvm_x86_avx512_mask_compress_v8i64
MODEL_COMPRESS(llvm_x86_avx512_mask_compress_v8i64, v8u64, 8, u64)
#endif
#ifdef NEED_llvm_x86_avx512_mask_compress_v16i32
MODEL_COMPRESS(llvm_x86_avx512_mask_compress_v16i32, v16u32, 16, u64)
#endif
#ifdef NEED_llvm_x86_avx512_mask_compress_v8f64
MODEL_COMPRESS(llvm_x86_avx512_mask_compress_v8f64, v8f64, 8, u64)
#endif
#ifdef NEED_llvm_x86_avx512_mask_compress_v16f32
MODEL_COMPRESS(llvm_x86_avx512_mask_compress_v16f32, v16f32, 16, u64)
#endif
#ifdef NEED_llvm_x86_avx512_mask_compress_v64i8
MODEL_COMPRESS(llvm_x86_avx512_mask_compress_v64i8, v64u8, 64, u64)
#endif
#ifdef NEED_llvm_x86_avx512_mask_compress_v32i16
MODEL_COMPRESS(llvm_x86_avx512_mask_compress_v32i16, v32u16, 32, u64)
#endif
#ifdef NEED_llvm_x86_avx512_mask_expand_v8i64
MODEL_EXPAND(llvm_x86_avx512_mask_expand_v8i64, v8u64, 8, u64)
#endif
#ifdef NEED_llvm_x86_avx512_mask_expand_v16i32
MODEL_EXPAND(llvm_x86_avx512_mask_expand_v16i32, v16u32, 16, u64)
#endif
#ifdef NEED_llvm_x86_avx512_mask_expand_v8f64
MODEL_EXPAND(llvm_x86_avx512_mask_expand_v8f64, v8f64, 8, u64)
#endif
#ifdef NEED_llvm_x86_avx512_mask_expand_v16f32
MODEL_EXPAND(llvm_x86_avx512_mask_expand_v16f32, v16f32, 16, u64)
#endif
#ifdef NEED_llvm_x86_avx512_mask_expand_v64i8
MODEL_EXPAND(llvm_x86_avx512_mask_expand_v64i8, v64u8, 64, u64)
#endif
#ifdef NEED_llvm_x86_avx512_mask_expand_v32i16
MODEL_EXPAND(llvm_x86_avx512_mask_expand_v32i16, v32u16, 32, u64)
#endif
/* horizontal adds: pairs within each 128-bit lane, first operand then second */
#ifdef NEED_llvm_x86_sse3_hadd_ps
static inline v4f32 llvm_x86_sse3_hadd_ps(v4f32 a, v4f32 b) { v4f32 r = {{FADD_f32(a.e[0], a.e[1]), FADD_f32(a.e[2], a.e[3]), FADD_f32(b.e[0], b.e[1]), FADD_f32(b.e[2], b.e[3])}}; return r; }
#endif
#ifdef NEED_llvm_x86_sse3_hadd_pd
static inline v2f64 llvm_x86_sse3_hadd_pd(v2f64 a, v2f64 b) { v2f64 r = {{FADD_f64(a.e[0], a.e[1]), FADD_f64(b.e[0], b.e[1])}}; return r; }
#endif
#ifdef NEED_llvm_x86_avx_hadd_ps_256
static inline v8f32 llvm_x86_avx_hadd_ps_256(v8f32 a, v8f32 b) { v8f32 r = {{FADD_f32(a.e[0], a.e[1]), FADD_f32(a.e[2], a.e[3]), FADD_f32(b.e[0], b.e[1]), FADD_f32(b.e[2], b.e[3]),
  FADD_f32(a.e[4], a.e[5]), FADD_f32(a.e[6], a.e[7]), FADD_f32(b.e[4], b.e[5]), FADD_f32(b.e[6], b.e[7])}}; return r; }
#endif
#ifdef NEED_llvm_x86_avx_hadd_pd_256
static inline v4f64 llvm_x86_avx_hadd_pd_256(v4f64 a, v4f64 b) { v4f64 r = {{FADD_f64(a.e[0], a.e[1]), FADD_f64(b.e[0], b.e[1]), FADD_f64(a.e[2], a.e[3]), FADD_f64(b.e[2], b.e[3])}}; return r; }
#endif
#ifdef NEED_llvm_x86_ssse3_phadd_d_128
static inline v4u32 llvm_x86_ssse3_phadd_d_128(v4u32 a, v4u32 b) { v4u32 r = {{a.e[0] + a.e[1], a.e[2] + a.e[3], b.e[0] + b.e[1], b.e[2] + b.e[3]}}; return r; }
#endif
#ifdef NEED_llvm_x86_ssse3_phadd_w_128
static inline v8u16 llvm_x86_ssse3_phadd_w_128(v8u16 a, v8u16 b) { v8u16 r; for (int i = 0; i < 4; ++i) { r.e[i] = (u16)(a.e[2 * i] + a.e[2 * i + 1]); r.e[4 + i] = (u16)(b.e[2 * i] + b.e[2 * i + 1]); } return r; }
#endif
/* PHADDSW: horizontal add of adjacent signed 16-bit pairs with signed saturation */
#define LL_SATS16(x) ((u16)((x) > 32767 ? 32767 : ((x) < -32768 ? -32768 : (x))))
#ifdef NEED_llvm_x86_ssse3_phadd_sw_128
static inline v8u16 llvm_x86_ssse3_phadd_sw_128(v8u16 a, v8u16 b) { v8u16 r; for (int i = 0; i < 4; ++i) {
  r.e[i] = LL_SATS16((s32)(s16)a.e[2 * i] + (s32)(s16)a.e[2 * i + 1]); r.e[4 + i] = LL_SATS16((s32)(s16)b.e[2 * i] + (s32)(s16)b.e[2 * i + 1]); } return r; }
#endif
#ifdef NEED_llvm_x86_avx2_phadd_sw
static inline v16u16 llvm_x86_avx2_phadd_sw(v16u16 a, v16u16 b) { v16u16 r; for (int l = 0; l < 2; ++l) for (int i = 0; i < 4; ++i) {
  r.e[8 * l + i] = LL_SATS16((s32)(s16)a.e[8 * l + 2 * i] + (s32)(s16)a.e[8 * l + 2 * i + 1]);
  r.e[8 * l + 4 + i] = LL_SATS16((s32)(s16)b.e[8 * l + 2 * i] + (s32)(s16)b.e[8 * l + 2 * i + 1]); } return r; }
#endif
#ifdef NEED_llvm_x86_avx2_phadd_d
static inline v8u32 llvm_x86_avx2_phadd_d(v8u32 a, v8u32 b) { v8u32 r = {{a.e[0] + a.e[1], a.e[2] + a.e[3], b.e[0] + b.e[1], b.e[2] + b.e[3], a.e[4] + a.e[5], a.e[6] + a.e[7], b.e[4] + b.e[5], b.e[6] + b.e[7]}}; return r; }
#endif
#ifdef NEED_llvm_x86_avx2_phadd_w
static inline v16u16 llvm_x86_avx2_phadd_w(v16u16 a, v16u16 b) { v16u16 r; for (int l = 0; l < 2; ++l) for (int i = 0; i < 4; ++i) { r.e[8 * l + i] = (u16)(a.e[8 * l + 2 * i] + a.e[8 * l + 2 * i + 1]); r.e[8 * l + 4 + i] = (u16)(b.e[8 * l + 2 * i] + b.e[8 * l + 2 * i + 1]); } return r; }
#endif
#ifdef NEED_llvm_x86_sse3_ldu_dq
static inline v16u8 llvm_x86_sse3_ldu_dq(u8 *p) { v16u8 r; for (int i = 0; i < 16; ++i) r.e[i] = p[i]; return r; }
#endif
#ifdef NEED_llvm_x86_avx_ldu_dq_256
static inline v32u8 llvm_x86_avx_ldu_dq_256(u8 *p) { v32u8 r; for (int i = 0; i < 32; ++i) r.e[i] = p[i]; return r; }
#endif

/* ---- hardware gathers / scatters: lane i accesses base + sign_extend(index[i]) * scale; masked-off lanes keep src / write nothing (SDM) ---- */
#define LL_GATHER_VEC(NAME, RT, ET, IT, SIT, N) \
  static inline RT NAME(RT src, u8 *base, IT idx, RT mask, u8 scale) { RT r; \
    for (int i = 0; i < N; ++i) r.e[i] = (LL_MSB_##ET(mask.e[i])) ? *(ET *)(base + (s64)(SIT)idx.e[i] * (s64)scale) : src.e[i]; return r; }
#define LL_MSB_u32(x) (((x) >> 31) & 1)
#define LL_MSB_u64(x) (((x) >> 63) & 1)
#define LL_MSB_f32(x) ((F2U32(x) >> 31) & 1)
#define LL_MSB_f64(x) ((F2U64(x) >> 63) & 1)
#ifdef NEED_llvm_x86_avx2_gather_d_d_256
LL_GATHER_VEC(llvm_x86_avx2_gather_d_d_256, v8u32, u32, v8u32, s32, 8)
#endif
#ifdef NEED_llvm_x86_avx2_gather_q_q_256
LL_GATHER_VEC(llvm_x86_avx2_gather_q_q_256, v4u64, u64, v4u64, s64, 4)
#endif
#ifdef NEED_llvm_x86_avx2_gather_d_ps_256
LL_GATHER_VEC(llvm_x86_avx2_gather_d_ps_256, v8f32, f32, v8u32, s32, 8)
#endif
#ifdef NEED_llvm_x86_avx2_gather_q_pd_256
LL_GATHER_VEC(llvm_x86_avx2_gather_q_pd_256, v4f64, f64, v4u64, s64, 4)
#endif
#define LL_GATHER_K(NAME, RT, ET, IT, SIT, N) \
  static inline RT NAME(RT src, u8 *base, IT idx, u64 k, u32 scale) { RT r; \
    for (int i = 0; i < N; ++i) r.e[i] = ((k >> i) & 1) ? *(ET *)(base + (s64)(SIT)idx.e[i] * (s64)scale) : src.e[i]; return r; }
#define LL_SCATTER_K(NAME, VT, ET, IT, SIT, N) \
  static inline void NAME(u8 *base, u64 k, IT idx, VT v, u32 scale) { \
    for (int i = 0; i < N; ++i) if ((k >> i) & 1) *(ET *)(base + (s64)(SIT)idx.e[i] * (s64)scale) = v.e[i]; }
#ifdef NEED_llvm_x86_avx512_mask_gather_dpi_512
LL_GATHER_K(llvm_x86_avx512_mask_gather_dpi_512, v16u32, u32, v16u32, s32, 16)
#endif
#ifdef NEED_llvm_x86_avx512_mask_gather_qpq_512
LL_GATHER_K(llvm_x86_avx512_mask_gather_qpq_512, v8u64, u64, v8u64, s64, 8)
#endif
#ifdef NEED_llvm_x86_avx512_mask_gather_dps_512
LL_GATHER_K(llvm_x86_avx512_mask_gather_dps_512, v16f32, f32, v16u32, s32, 16)
#endif
#ifdef NEED_llvm_x86_avx512_mask_gather_qpd_512
LL_GATHER_K(llvm_x86_avx512_mask_gather_qpd_512, v8f64, f64, v8u64, s64, 8)
#endif
#ifdef NEED_llvm_x86_avx512_mask_scatter_dpi_512
LL_SCATTER_K(llvm_x86_avx512_mask_scatter_dpi_512, v16u32, u32, v16u32, s32, 16)
#endif
#ifdef NEED_llvm_x86_avx512_mask_scatter_qpq_512
LL_SCATTER_K(llvm_x86_avx512_mask_scatter_qpq_512, v8u64, u64, v8u64, s64, 8)
#endif
#ifdef NEED_llvm_x86_avx512_mask_scatter_dps_512
LL_SCATTER_K(llvm_x86_avx512_mask_scatter_dps_512, v16f32, f32, v16u32, s32, 16)
#endif
#ifdef NEED_llvm_x86_avx512_mask_scatter_qpd_512
LL_SCATTER_K(llvm_x86_avx512_mask_scatter_qpd_512, v8f64, f64, v8u64, s64, 8)
#endif
